//! C11 kernel: `boa_string::JsStr` against a plain array of UTF-16 code units, for both internal
//! representations (Latin-1 buffer / UTF-16 buffer).  External harness crate: only the PUBLIC API of the
//! real, unmodified `boa_string` crate is used, so no hook in /repo is needed.
//!
//! Model: a string is the sequence `u[0..n]` of code units.  `latin1(u)` exists when all units are <= 0xFF.
//! Spec: every observation (==, cmp, hash, len, get, to_vec, starts_with, ends_with, index_of,
//! code_point_at, == str, == [u16]) depends on the sequence only, and equals the same operation on the
//! plain array.

// ASSUME-FILE[assume]: `kani::assume` bounds the symbolic length (BOUND) and states when a Latin-1
//   representation of the sequence exists (all units <= 0xFF) or that the &str operand is valid UTF-8.
// ASSUME-FILE[unwind]: loops run over strings of at most MAXN code units (BOUND).

use boa_string::{CodePoint, JsStr};
use std::hash::{Hash, Hasher};

pub(crate) const MAXN: usize = 3;

/// A symbolic code-unit sequence of length n <= MAXN.
pub(crate) struct Seq {
    pub(crate) u: [u16; MAXN],
    pub(crate) n: usize,
}

pub(crate) fn any_seq() -> Seq {
    let s = Seq { u: kani::any(), n: kani::any() };
    kani::assume(s.n <= MAXN);
    s
}

impl Seq {
    pub(crate) fn units(&self) -> &[u16] {
        &self.u[..self.n]
    }
    pub(crate) fn fits_latin1(&self) -> bool {
        self.units().iter().all(|c| *c <= 0xFF)
    }
    pub(crate) fn narrow(&self) -> [u8; MAXN] {
        [self.u[0] as u8, self.u[1] as u8, self.u[2] as u8]
    }
}

/// One of the representations of the same sequence (symbolic choice).
pub(crate) fn repr<'a>(s: &'a Seq, narrow: &'a [u8; MAXN]) -> JsStr<'a> {
    if kani::any() {
        kani::assume(s.fits_latin1());
        JsStr::latin1(&narrow[..s.n])
    } else {
        JsStr::utf16(s.units())
    }
}

// BOUND: both operands at most 3 code units (all 2^16 values per unit, all representation pairs)
// FN: <JsStr as PartialEq>::eq, <JsStr as Ord>::cmp, <JsStr as PartialOrd>::partial_cmp
#[kani::proof]
#[kani::unwind(9)]
fn c11_eq_and_order_depend_on_units_only() {
    let (a, b) = (any_seq(), any_seq());
    let (na, nb) = (a.narrow(), b.narrow());
    let (x, y) = (repr(&a, &na), repr(&b, &nb));
    kani::cover!(x.is_latin1() && !y.is_latin1() && a.n == 3 && a.units() == b.units());
    kani::cover!(!x.is_latin1() && y.is_latin1() && a.n == 2 && b.n == 3);
    kani::cover!(a.units() < b.units() && a.n > b.n);
    assert!((x == y) == (a.units() == b.units()));
    assert!(x.cmp(&y) == a.units().cmp(b.units()));
    assert!(x.partial_cmp(&y) == Some(a.units().cmp(b.units())));
}

/// A hasher that records what it is fed.
struct Rec {
    log: [(u8, u64); 8],
    k: usize,
}
impl Hasher for Rec {
    fn finish(&self) -> u64 {
        0
    }
    fn write(&mut self, bytes: &[u8]) {
        // byte-wise feeding would make the hash depend on the buffer width: record it distinctly
        for b in bytes {
            self.push(1, *b as u64);
        }
    }
    fn write_u16(&mut self, i: u16) {
        self.push(2, i as u64);
    }
    fn write_usize(&mut self, i: usize) {
        self.push(3, i as u64);
    }
    fn write_u8(&mut self, i: u8) {
        self.push(4, i as u64);
    }
}
impl Rec {
    fn push(&mut self, tag: u8, v: u64) {
        if self.k < 8 {
            self.log[self.k] = (tag, v);
        }
        self.k += 1;
    }
}

// BOUND: at most 3 code units
// FN: <JsStr as Hash>::hash
#[kani::proof]
#[kani::unwind(9)]
fn c11_hash_depends_on_units_only() {
    let a = any_seq();
    kani::assume(a.fits_latin1());
    let na = a.narrow();
    kani::cover!(a.n == 3);
    let (x, y) = (JsStr::latin1(&na[..a.n]), JsStr::utf16(a.units()));
    let mut hx = Rec { log: [(0, 0); 8], k: 0 };
    let mut hy = Rec { log: [(0, 0); 8], k: 0 };
    x.hash(&mut hx);
    y.hash(&mut hy);
    assert!(hx.k == hy.k && hx.k <= 8);
    assert!(hx.log == hy.log);
    // and it feeds the length and every unit (different sequences can be told apart by a good hasher)
    assert!(hx.k == a.n + 1 && hx.log[0] == (3, a.n as u64));
    let i: usize = kani::any();
    kani::assume(i < a.n);
    assert!(hx.log[i + 1] == (2, a.u[i] as u64));
}

// BOUND: at most 3 code units
// FN: JsStr::len, JsStr::is_empty, JsStr::get, JsStr::to_vec, JsStr::iter, <[u16] as PartialEq<JsStr>>::eq
#[kani::proof]
#[kani::unwind(9)]
fn c11_len_get_to_vec() {
    let a = any_seq();
    let na = a.narrow();
    let x = repr(&a, &na);
    kani::cover!(x.is_latin1() && a.n == 3);
    kani::cover!(!x.is_latin1() && a.n == 1);
    assert!(x.len() == a.n && x.is_empty() == (a.n == 0));
    let i: usize = kani::any();
    assert!(x.get(i) == a.units().get(i).copied());
    assert!(x.to_vec().as_slice() == a.units());
    assert!(x.iter().eq(a.units().iter().copied()));
    let b = any_seq();
    assert!((*b.units() == x) == (b.units() == a.units()));
}

// BOUND: haystack at most 3 code units, needle at most 3
// FN: JsStr::starts_with, JsStr::ends_with
#[kani::proof]
#[kani::unwind(9)]
fn c11_starts_ends_with() {
    let (a, b) = (any_seq(), any_seq());
    let (na, nb) = (a.narrow(), b.narrow());
    let (x, y) = (repr(&a, &na), repr(&b, &nb));
    kani::cover!(x.is_latin1() != y.is_latin1() && b.n == 2 && a.n == 3 && x.starts_with(y));
    kani::cover!(x.is_latin1() != y.is_latin1() && b.n == 2 && a.n == 3 && x.ends_with(y));
    assert!(x.starts_with(y) == a.units().starts_with(b.units()));
    assert!(x.ends_with(y) == a.units().ends_with(b.units()));
}

fn index_of_model(a: &Seq, b: &Seq, from: usize) -> Option<usize> {
    // the abstract operation StringIndexOf
    if b.n == 0 {
        return if from <= a.n { Some(from) } else { None };
    }
    let mut w = None;
    let mut i = 0;
    while i + b.n <= a.n {
        if w.is_none() && i >= from && &a.u[i..i + b.n] == b.units() {
            w = Some(i);
        }
        i += 1;
    }
    w
}

fn index_of_case(needle_len: usize) {
    let (a, b) = (any_seq(), any_seq());
    kani::assume(b.n == needle_len);
    let (na, nb) = (a.narrow(), b.narrow());
    let (x, y) = (repr(&a, &na), repr(&b, &nb));
    let from: usize = kani::any();
    kani::assume(from <= 4);
    let r = x.index_of(y, from); // called once: the windows/skip/position iterator chain is expensive for CBMC
    kani::cover!(x.is_latin1() != y.is_latin1() && a.n == 3 && r.is_some());
    kani::cover!(r.is_none());
    assert!(r == index_of_model(&a, &b, from));
}

// BOUND: haystack at most 3 code units, needle exactly 1 unit, fromIndex at most 4
// FN: JsStr::index_of
#[kani::proof]
#[kani::unwind(9)]
fn c11x_index_of_needle1() {
    index_of_case(1);
}

// BOUND: haystack at most 3 code units, needle exactly 2 units, fromIndex at most 4
// FN: JsStr::index_of
#[kani::proof]
#[kani::unwind(9)]
fn c11x_index_of_needle2() {
    index_of_case(2);
}

// BOUND: haystack at most 3 code units, empty needle, fromIndex at most 4
// FN: JsStr::index_of
#[kani::proof]
#[kani::unwind(9)]
fn c11x_index_of_empty_needle() {
    index_of_case(0);
}

// BOUND: at most 3 code units
// FN: JsStr::code_point_at
#[kani::proof]
#[kani::unwind(9)]
fn c11_code_point_at() {
    let a = any_seq();
    let na = a.narrow();
    let x = repr(&a, &na);
    let i: usize = kani::any();
    kani::assume(i < a.n);
    let first = a.u[i];
    let lead = |c: u16| (0xD800..0xDC00).contains(&c);
    let trail = |c: u16| (0xDC00..0xE000).contains(&c);
    kani::cover!(lead(first) && i + 1 < a.n && trail(a.u[i + 1]));
    kani::cover!(lead(first) && i + 1 == a.n);
    kani::cover!(x.is_latin1() && first > 0x7F);
    // ECMAScript CodePointAt
    let want = if !lead(first) && !trail(first) {
        CodePoint::Unicode(char::from_u32(first as u32).unwrap())
    } else if trail(first) || i + 1 == a.n || !trail(a.u[i + 1]) {
        CodePoint::UnpairedSurrogate(first)
    } else {
        let cp = 0x10000 + (((first as u32) - 0xD800) << 10) + ((a.u[i + 1] as u32) - 0xDC00);
        CodePoint::Unicode(char::from_u32(cp).unwrap())
    };
    assert!(x.code_point_at(i) == want);
}

/// Comparison with a Rust `str`: equal iff the code units are the UTF-16 encoding of the `str`.
// BOUND: JsStr at most 3 code units; str at most 4 UTF-8 bytes (any valid UTF-8, so up to one astral character)
// FN: <JsStr as PartialEq<str>>::eq, <JsStr as PartialEq<&str>>::eq
#[kani::proof]
#[kani::unwind(9)]
fn c11_eq_rust_str() {
    let a = any_seq();
    let na = a.narrow();
    let x = repr(&a, &na);
    let bytes: [u8; 4] = kani::any();
    let m: usize = kani::any();
    kani::assume(m <= 4);
    let Ok(s) = std::str::from_utf8(&bytes[..m]) else { return };
    kani::cover!(m == 2 && a.n == 1 && x.is_latin1()); // e.g. "é" vs latin1 [0xE9]
    kani::cover!(m == 2 && a.n == 2);
    kani::cover!(m == 4 && a.n == 2 && !x.is_latin1()); // astral
    let mut enc = [0u16; 4];
    let mut k = 0;
    for c in s.chars() {
        let mut buf = [0u16; 2];
        for w in c.encode_utf16(&mut buf) {
            enc[k] = *w;
            k += 1;
        }
    }
    let want = a.units() == &enc[..k];
    assert!((x == *s) == want);
    assert!((x == s) == want);
}


// BOUND: at most 3 code units
// FN: JsStr::get (range forms), JsStr::get_expect, JsStr::contains
#[kani::proof]
#[kani::unwind(9)]
fn c11_ranges_and_contains() {
    let a = any_seq();
    let na = a.narrow();
    let x = repr(&a, &na);
    let (i, j): (usize, usize) = (kani::any(), kani::any());
    kani::assume(i <= 4 && j <= 4);
    kani::cover!(i < j && j <= a.n && x.is_latin1());
    kani::cover!(j > a.n);
    let same = |s: Option<JsStr<'_>>, m: Option<&[u16]>| match (s, m) {
        (Some(s), Some(m)) => s.len() == m.len() && s.iter().eq(m.iter().copied()),
        (None, None) => true,
        _ => false,
    };
    assert!(same(x.get(i..j), a.units().get(i..j)));
    assert!(same(x.get(i..), a.units().get(i..)));
    assert!(same(x.get(..j), a.units().get(..j)));
    assert!(same(x.get(..), Some(a.units())));
    if i < j && j <= 3 {
        assert!(same(x.get(i..=j - 1), a.units().get(i..=j - 1)));
    }
    if i < a.n {
        assert!(x.get_expect(i) == a.u[i]);
    }
    let b: u8 = kani::any();
    assert!(x.contains(b) == a.units().contains(&(b as u16)));
}

// FN: CodePoint::as_u32, CodePoint::code_unit_count, CodePoint::as_char, CodePoint::encode_utf16
#[kani::proof]
#[kani::unwind(6)]
fn c11_code_point_methods() {
    let c: char = kani::any();
    let s: u16 = kani::any();
    kani::assume((0xD800..0xE000).contains(&s));
    kani::cover!(c as u32 > 0xFFFF);
    let u = CodePoint::Unicode(c);
    let l = CodePoint::UnpairedSurrogate(s);
    assert!(u.as_u32() == c as u32 && l.as_u32() == s as u32);
    assert!(u.code_unit_count() == if (c as u32) > 0xFFFF { 2 } else { 1 } && l.code_unit_count() == 1);
    assert!(u.as_char() == Some(c) && l.as_char().is_none());
    let mut buf = [0u16; 2];
    let enc = u.encode_utf16(&mut buf);
    let mut want = [0u16; 2];
    assert!(enc == c.encode_utf16(&mut want));
    let mut buf2 = [0u16; 2];
    assert!(l.encode_utf16(&mut buf2) == [s]);
}


// ---------------------------------------------------------------- thorough tier: the same contracts at length <= 4

pub(crate) struct Seq4 {
    pub(crate) u: [u16; 4],
    pub(crate) n: usize,
}
fn any_seq4() -> Seq4 {
    let s = Seq4 { u: kani::any(), n: kani::any() };
    kani::assume(s.n <= 4);
    s
}
impl Seq4 {
    fn units(&self) -> &[u16] {
        &self.u[..self.n]
    }
    fn narrow(&self) -> [u8; 4] {
        [self.u[0] as u8, self.u[1] as u8, self.u[2] as u8, self.u[3] as u8]
    }
}
fn repr4<'a>(s: &'a Seq4, narrow: &'a [u8; 4]) -> JsStr<'a> {
    if kani::any() {
        kani::assume(s.units().iter().all(|c| *c <= 0xFF));
        JsStr::latin1(&narrow[..s.n])
    } else {
        JsStr::utf16(s.units())
    }
}

// BOUND: both operands at most 4 code units (all 2^16 values per unit, all representation pairs)
// FN: <JsStr as PartialEq>::eq, <JsStr as Ord>::cmp
#[kani::proof]
#[kani::unwind(11)]
fn c11x_eq_and_order_len4() {
    let (a, b) = (any_seq4(), any_seq4());
    let (na, nb) = (a.narrow(), b.narrow());
    let (x, y) = (repr4(&a, &na), repr4(&b, &nb));
    kani::cover!(x.is_latin1() && !y.is_latin1() && a.n == 4 && a.units() == b.units());
    kani::cover!(a.n == 4 && b.n == 3);
    assert!((x == y) == (a.units() == b.units()));
    assert!(x.cmp(&y) == a.units().cmp(b.units()));
}

// BOUND: at most 4 code units
// FN: <JsStr as Hash>::hash, JsStr::len, JsStr::get, JsStr::to_vec
#[kani::proof]
#[kani::unwind(11)]
fn c11x_hash_len_get_len4() {
    let a = any_seq4();
    kani::assume(a.units().iter().all(|c| *c <= 0xFF));
    let na = a.narrow();
    kani::cover!(a.n == 4);
    let (x, y) = (JsStr::latin1(&na[..a.n]), JsStr::utf16(a.units()));
    let mut hx = Rec { log: [(0, 0); 8], k: 0 };
    let mut hy = Rec { log: [(0, 0); 8], k: 0 };
    x.hash(&mut hx);
    y.hash(&mut hy);
    assert!(hx.k == hy.k && hx.k == a.n + 1 && hx.log == hy.log);
    assert!(x.len() == a.n && y.len() == a.n);
    let i: usize = kani::any();
    assert!(x.get(i) == a.units().get(i).copied() && y.get(i) == x.get(i));
    assert!(x.to_vec() == y.to_vec());
}

#[kani::proof]
#[kani::unwind(9)]
fn c11_canary_must_fail() {
    let a = any_seq();
    let na = a.narrow();
    let _x = repr(&a, &na);
    assert!(false, "canary");
}

#[cfg(verif_replay)]
include!("/verif/.cache/playback/jsstr.rs");
