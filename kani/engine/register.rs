//! C03 kernel (4): the register allocator of the bytecompiler
//! (`RegisterAllocator::{alloc, alloc_persistent, dealloc, finish}`, boa_engine::bytecompiler::register) -
//! `finish()` becomes the `register_count` the frame's register file is sized with.
//!
//! Pulled in by `#[cfg(kani)] #[path = "/verif/kani/engine/register.rs"] mod verif_kani;`
//! in /repo/core/engine/src/bytecompiler/register.rs.
//!
//! Abstract view: used[i], persistent[i] for i < len.  Invariant: persistent[i] => used[i].
//! Spec: `alloc` hands out the LEAST free index (or len, growing by one), marks exactly it used and
//! never hands out a used or persistent register; `dealloc(r)` requires a used, non-persistent r and
//! frees exactly it; `finish()` = len = 1 + the largest index ever handed out, so every register
//! operand the compiler emitted is < register_count.

// ASSUME-FILE[assume]: restricts the symbolic allocator state to the invariant (persistent => used; only the two
//   defined flag bits) and to the length bound.
// ASSUME-FILE[unwind]: loops over the register table of at most 4 entries (BOUND).
// ASSUME-FILE[drop]: `Register` values are forgotten in the harness: dropping a live `Register` is the allocator's
//   deliberate "forgot to deallocate" bug trap (`unreachable!`), not part of the contracts checked here.

use super::*;

const MAXR: usize = 10; // array capacity of the view; quick harnesses bound the table at 4, thorough at 10

#[derive(Clone, Copy)]
struct View {
    len: usize,
    used: [bool; MAXR + 1],
    pers: [bool; MAXR + 1],
}

fn view(a: &RegisterAllocator) -> View {
    let mut v = View { len: a.registers.len(), used: [false; MAXR + 1], pers: [false; MAXR + 1] };
    let mut i = 0;
    while i < a.registers.len() && i <= MAXR {
        v.used[i] = a.registers[i].flags.bits() & 1 != 0;
        v.pers[i] = a.registers[i].flags.bits() & 2 != 0;
        i += 1;
    }
    v
}

/// Any allocator state satisfying the invariant, with at most MAXR entries.
fn any_allocator() -> RegisterAllocator {
    any_allocator_upto(4)
}

fn any_allocator_upto(limit: usize) -> RegisterAllocator {
    let n: usize = kani::any();
    kani::assume(n <= limit);
    let mut a = RegisterAllocator::default();
    let mut i = 0;
    while i < n {
        let bits: u8 = kani::any();
        kani::assume(bits <= 3 && bits != 2); // persistent implies used
        a.registers.push(RegisterEntry { flags: RegisterFlags::from_bits_retain(bits) });
        i += 1;
    }
    a
}

fn least_free(v: &View) -> usize {
    let mut i = 0;
    while i < v.len {
        if !v.used[i] {
            return i;
        }
        i += 1;
    }
    v.len
}

// BOUND: register table of at most 4 entries before the call
// FN: RegisterAllocator::alloc
// ALSO: C02
#[kani::proof]
#[kani::unwind(9)]
fn c03_register_alloc() {
    let mut a = any_allocator();
    let before = view(&a);
    let want = least_free(&before);
    kani::cover!(want < before.len && want > 0);
    kani::cover!(want == before.len && before.len == 4);
    let r = a.alloc();
    let after = view(&a);
    assert!(r.index() as usize == want);
    assert!(u32::from(r.variable()) == r.index());
    // never a register that was in use or persistent
    assert!(want == before.len || (!before.used[want] && !before.pers[want]));
    // grew iff nothing was free
    assert!(after.len == if want == before.len { before.len + 1 } else { before.len });
    assert!(after.used[want] && !after.pers[want]);
    // frame: exactly that entry changed
    let j: usize = kani::any();
    kani::assume(j < before.len && j != want);
    assert!(after.used[j] == before.used[j] && after.pers[j] == before.pers[j]);
    std::mem::forget(r);
}

// BOUND: register table of at most 4 entries before the call
// FN: RegisterAllocator::alloc_persistent
#[kani::proof]
#[kani::unwind(9)]
fn c03_register_alloc_persistent() {
    let mut a = any_allocator();
    let before = view(&a);
    let want = least_free(&before);
    kani::cover!(want < before.len);
    kani::cover!(want == before.len);
    let r = a.alloc_persistent();
    let after = view(&a);
    assert!(r.index() as usize == want);
    assert!(after.used[want] && after.pers[want]);
    assert!(after.len == if want == before.len { before.len + 1 } else { before.len });
    let j: usize = kani::any();
    kani::assume(j < before.len && j != want);
    assert!(after.used[j] == before.used[j] && after.pers[j] == before.pers[j]);
    // a persistent register can be dropped without deallocation (its Drop must not fire the bug trap)
    drop(r);
}

// BOUND: register table of at most 4 entries
// FN: RegisterAllocator::dealloc, RegisterAllocator::alloc
// ALSO: C02
#[kani::proof]
#[kani::unwind(9)]
fn c03_register_dealloc() {
    let mut a = any_allocator();
    let r = a.alloc();
    let idx = r.index() as usize;
    let mid = view(&a);
    kani::cover!(idx + 1 < mid.len);
    a.dealloc(r);
    let after = view(&a);
    assert!(after.len == mid.len);
    assert!(!after.used[idx] && !after.pers[idx]);
    let j: usize = kani::any();
    kani::assume(j < mid.len && j != idx);
    assert!(after.used[j] == mid.used[j] && after.pers[j] == mid.pers[j]);
    // the freed register is the next one handed out if it is the least free one
    let r2 = a.alloc();
    assert!(r2.index() as usize <= idx);
    std::mem::forget(r2);
}

/// Deallocating a persistent register is rejected (panics) - it would let a live variable's register
/// be reused.
// EXPECT-PANIC: Trying to deallocate a persistent register
// BOUND: register table of at most 4 entries
// FN: RegisterAllocator::dealloc
// ALSO: C02
#[kani::proof]
#[kani::should_panic]
#[kani::unwind(9)]
fn c03_register_dealloc_persistent_panics() {
    let mut a = any_allocator();
    let r = a.alloc_persistent();
    a.dealloc(r);
    assert!(false, "RETURNED-FROM-DEALLOC-OF-A-PERSISTENT-REGISTER");
}

/// `finish()` = table length, and it bounds every index handed out by a sequence of allocations
/// (here: 3 allocs interleaved with a dealloc, from the empty allocator).
// BOUND: the fixed sequence alloc, alloc, dealloc(first|second), alloc_persistent, alloc from the empty allocator
// FN: RegisterAllocator::finish, RegisterAllocator::alloc, RegisterAllocator::dealloc
// ALSO: C02
#[kani::proof]
#[kani::unwind(9)]
fn c03_register_count_bounds_every_operand() {
    let mut a = RegisterAllocator::default();
    let r0 = a.alloc();
    let r1 = a.alloc();
    assert!(r0.index() == 0 && r1.index() == 1);
    let first: bool = kani::any();
    kani::cover!(first);
    kani::cover!(!first);
    let (freed, kept) = if first { (r0, r1) } else { (r1, r0) };
    let freed_idx = freed.index();
    a.dealloc(freed);
    let p = a.alloc_persistent();
    assert!(p.index() == freed_idx); // lowest free slot is reused
    let r3 = a.alloc();
    assert!(r3.index() == 2);
    let max_handed_out = 2;
    let (ki, pi, r3i) = (kept.index(), p.index(), r3.index());
    a.dealloc(kept);
    a.dealloc(r3);
    let count = a.finish();
    assert!(count == max_handed_out + 1);
    assert!(ki < count && pi < count && r3i < count);
}


/// Thorough tier: `alloc` / `dealloc` on tables of up to 10 entries.
// BOUND: register table of at most 10 entries before the call
// FN: RegisterAllocator::alloc, RegisterAllocator::dealloc
#[kani::proof]
#[kani::unwind(13)]
fn c03x_register_alloc_dealloc_10() {
    let mut a = any_allocator_upto(10);
    let before = view(&a);
    let want = least_free(&before);
    kani::cover!(want == 9 && before.len == 10);
    kani::cover!(want == before.len && before.len == 10);
    let r = a.alloc();
    let mid = view(&a);
    assert!(r.index() as usize == want);
    assert!(want == before.len || (!before.used[want] && !before.pers[want]));
    assert!(mid.len == if want == before.len { before.len + 1 } else { before.len });
    assert!(mid.used[want] && !mid.pers[want]);
    let j: usize = kani::any();
    kani::assume(j < before.len && j != want);
    assert!(mid.used[j] == before.used[j] && mid.pers[j] == before.pers[j]);
    a.dealloc(r);
    let after = view(&a);
    assert!(after.len == mid.len && !after.used[want]);
    assert!(after.used[j] == before.used[j] && after.pers[j] == before.pers[j]);
}

#[kani::proof]
#[kani::unwind(9)]
fn c03_register_canary_must_fail() {
    let _a = any_allocator();
    assert!(false, "canary");
}

#[cfg(verif_replay)]
include!("/verif/.cache/playback/register.rs");
