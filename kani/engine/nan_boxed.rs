//! C12 kernel: contracts and proof harnesses for the real NaN-boxing code
//! (`boa_engine::value::inner::nan_boxed`: `mod bits` and `NanBoxedValue`).
//!
//! Pulled in by `#[cfg(kani)] #[path = "/verif/kani/engine/nan_boxed.rs"] mod verif_kani;` in
//! /repo/core/engine/src/value/inner/nan_boxed.rs.
//!
//! The spec functions are written from the property statement and the layout table in the module
//! documentation ("7FF9:0000:IIII:IIII Integer32", ...), with independent literals and shifts -
//! they do not use any constant or function of `mod bits`.

// ASSUME-FILE[assume]: `kani::assume` is only used to select the input class named in the harness
//   (non-null 48-bit address, NaN / non-NaN double, one of the four pointer masks).
// ASSUME-FILE[drop]: a `NanBoxedValue` forged from a symbolic word may carry a pointer tag; it is wrapped in
//   ManuallyDrop so that `Drop` never dereferences the forged address. Only tag arithmetic is exercised.
// ASSUME-FILE[unsafe]: none of the harnesses dereferences a forged pointer; `unsafe` is not used.

use super::*;

// ------------------------------------------------------------------------------------------ spec

/// Exponent field all ones: the word is an IEEE NaN or infinity pattern.
pub(crate) const fn s_exp_ones(v: u64) -> bool {
    (v >> 52) & 0x7FF == 0x7FF
}
/// The 4 tag bits (51..48).
pub(crate) const fn s_tag(v: u64) -> u64 {
    (v >> 48) & 0xF
}
/// "Float64: any other value": not in the NaN space, or infinity (tag 0), or the quiet NaN (tag 8).
pub(crate) const fn s_is_float(v: u64) -> bool {
    !s_exp_ones(v) || s_tag(v) == 0 || s_tag(v) == 8
}
pub(crate) const fn s_has_tag(v: u64, t: u64) -> bool {
    s_exp_ones(v) && s_tag(v) == t
}
pub(crate) const fn s_is_int32(v: u64) -> bool {
    s_has_tag(v, 0x9)
}
pub(crate) const fn s_is_bool(v: u64) -> bool {
    s_has_tag(v, 0xA)
}
pub(crate) const fn s_is_other(v: u64) -> bool {
    s_has_tag(v, 0xB)
}
pub(crate) const fn s_is_object(v: u64) -> bool {
    s_has_tag(v, 0xC)
}
pub(crate) const fn s_is_string(v: u64) -> bool {
    s_has_tag(v, 0xD)
}
pub(crate) const fn s_is_symbol(v: u64) -> bool {
    s_has_tag(v, 0xE)
}
pub(crate) const fn s_is_bigint(v: u64) -> bool {
    s_has_tag(v, 0xF)
}
/// Number of type predicates of the *specification* that hold for a word.
pub(crate) const fn s_count(v: u64) -> u32 {
    s_is_float(v) as u32
        + s_is_int32(v) as u32
        + s_is_bool(v) as u32
        + s_is_other(v) as u32
        + s_is_object(v) as u32
        + s_is_string(v) as u32
        + s_is_symbol(v) as u32
        + s_is_bigint(v) as u32
}

/// IEEE NaN on the raw bits (no float operation): exponent all ones and mantissa non-zero.
pub(crate) const fn s_bits_nan(b: u64) -> bool {
    (b >> 52) & 0x7FF == 0x7FF && b & 0x000F_FFFF_FFFF_FFFF != 0
}
pub(crate) const CANONICAL_NAN: u64 = 0x7FF8_0000_0000_0000;

/// tag_f64: every NaN payload becomes the one canonical quiet NaN, every other double keeps its bits.
pub(crate) const fn s_tag_f64(f: f64) -> u64 {
    let b = f.to_bits();
    if s_bits_nan(b) { CANONICAL_NAN } else { b }
}
pub(crate) const fn s_tag_i32(i: i32) -> u64 {
    0x7FF9_0000_0000_0000 | (i as u32 as u64)
}
pub(crate) const fn s_tag_bool(b: bool) -> u64 {
    if b { 0x7FFA_0000_0000_0001 } else { 0x7FFA_0000_0000_0000 }
}

/// The number of real `bits::is_*` predicates that hold.
fn real_count(v: u64) -> u32 {
    bits::is_float(v) as u32
        + bits::is_integer32(v) as u32
        + bits::is_bool(v) as u32
        + (v & bits::MASK_KIND == bits::MASK_OTHER) as u32
        + bits::is_object(v) as u32
        + bits::is_string(v) as u32
        + bits::is_symbol(v) as u32
        + bits::is_bigint(v) as u32
}

// ------------------------------------------------------------------ in-place contracts: mod bits

#[kani::proof_for_contract(bits::is_float)]
fn c12_bits_is_float() {
    let v: u64 = kani::any();
    kani::cover!(s_exp_ones(v) && s_tag(v) == 3);
    kani::cover!(!s_exp_ones(v));
    let r = bits::is_float(v);
    assert!(r == s_is_float(v)); // mirror of the in-place postcondition (native replay)
}

#[kani::proof_for_contract(bits::is_integer32)]
fn c12_bits_is_integer32() {
    let v: u64 = kani::any();
    kani::cover!(s_is_int32(v));
    assert!(bits::is_integer32(v) == s_is_int32(v));
}

#[kani::proof_for_contract(bits::is_bool)]
fn c12_bits_is_bool() {
    let v: u64 = kani::any();
    kani::cover!(s_is_bool(v));
    assert!(bits::is_bool(v) == s_is_bool(v));
}

#[kani::proof_for_contract(bits::is_bigint)]
fn c12_bits_is_bigint() {
    let v: u64 = kani::any();
    kani::cover!(s_is_bigint(v));
    assert!(bits::is_bigint(v) == s_is_bigint(v));
}

#[kani::proof_for_contract(bits::is_object)]
fn c12_bits_is_object() {
    let v: u64 = kani::any();
    kani::cover!(s_is_object(v));
    assert!(bits::is_object(v) == s_is_object(v));
}

#[kani::proof_for_contract(bits::is_symbol)]
fn c12_bits_is_symbol() {
    let v: u64 = kani::any();
    kani::cover!(s_is_symbol(v));
    assert!(bits::is_symbol(v) == s_is_symbol(v));
}

#[kani::proof_for_contract(bits::is_string)]
fn c12_bits_is_string() {
    let v: u64 = kani::any();
    kani::cover!(s_is_string(v));
    assert!(bits::is_string(v) == s_is_string(v));
}

#[kani::proof_for_contract(bits::is_negative_zero)]
fn c12_bits_is_negative_zero() {
    let v: u64 = kani::any();
    kani::cover!(v == 0x8000_0000_0000_0000);
    assert!(bits::is_negative_zero(v) == (v == 0x8000_0000_0000_0000));
}

#[kani::proof_for_contract(bits::tag_f64)]
fn c12_bits_tag_f64() {
    let f: f64 = kani::any();
    kani::cover!(f.is_nan() && f.to_bits() != CANONICAL_NAN);
    kani::cover!(f.to_bits() == 0x8000_0000_0000_0000);
    kani::cover!(f.is_infinite());
    let r = bits::tag_f64(f);
    assert!(r == s_tag_f64(f));
    // every NaN payload reads back as the number NaN and never as another type
    assert!(s_is_float(r) && s_count(r) == 1);
}

#[kani::proof_for_contract(bits::tag_i32)]
fn c12_bits_tag_i32() {
    let i: i32 = kani::any();
    kani::cover!(i < 0);
    let r = bits::tag_i32(i);
    assert!(r == s_tag_i32(i));
    assert!(s_is_int32(r) && s_count(r) == 1);
}

#[kani::proof_for_contract(bits::untag_i32)]
fn c12_bits_untag_i32() {
    let v: u64 = kani::any();
    kani::cover!(s_is_int32(v));
    let r = bits::untag_i32(v);
    assert!(r == (v & 0xFFFF_FFFF) as u32 as i32);
}

#[kani::proof_for_contract(bits::tag_bool)]
fn c12_bits_tag_bool() {
    let b: bool = kani::any();
    kani::cover!(b);
    kani::cover!(!b);
    let r = bits::tag_bool(b);
    assert!(r == s_tag_bool(b));
    assert!(s_is_bool(r) && s_count(r) == 1);
}

#[kani::proof_for_contract(bits::untag_bool)]
fn c12_bits_untag_bool() {
    let v: u64 = kani::any();
    kani::cover!(v == 0x7FFA_0000_0000_0001);
    assert!(bits::untag_bool(v) == (v & 1 == 1));
}

#[kani::proof_for_contract(bits::untag_pointer)]
fn c12_bits_untag_pointer() {
    let v: u64 = kani::any();
    kani::cover!(s_is_object(v));
    assert!(bits::untag_pointer(v) == (v & 0x0000_FFFF_FFFF_FFFF) as usize);
}

// ------------------------------------------------------------------------- lemmas over `bits`

/// Constants are the words of the documented layout table.
// FN: bits::VALUE_NULL, bits::VALUE_UNDEFINED, bits::VALUE_FALSE, bits::VALUE_TRUE, bits::MASK_KIND
#[kani::proof]
fn c12_bits_constants() {
    kani::cover!(true);
    assert!(bits::VALUE_NULL == 0x7FFB_0000_0000_0000);
    assert!(bits::VALUE_UNDEFINED == 0x7FFB_0000_0000_0001);
    assert!(bits::VALUE_FALSE == 0x7FFA_0000_0000_0000);
    assert!(bits::VALUE_TRUE == 0x7FFA_0000_0000_0001);
    assert!(bits::VALUE_NEGATIVE_ZERO == 0x8000_0000_0000_0000);
    assert!(bits::MASK_KIND == 0x7FFF_0000_0000_0000);
    assert!(bits::MASK_INT32 == 0x7FF9_0000_0000_0000);
    assert!(bits::MASK_BOOLEAN == 0x7FFA_0000_0000_0000);
    assert!(bits::MASK_OTHER == 0x7FFB_0000_0000_0000);
    assert!(bits::MASK_OBJECT == 0x7FFC_0000_0000_0000);
    assert!(bits::MASK_STRING == 0x7FFD_0000_0000_0000);
    assert!(bits::MASK_SYMBOL == 0x7FFE_0000_0000_0000);
    assert!(bits::MASK_BIGINT == 0x7FFF_0000_0000_0000);
    assert!(s_count(bits::VALUE_NULL) == 1 && s_is_other(bits::VALUE_NULL));
    assert!(s_count(bits::VALUE_UNDEFINED) == 1 && s_is_other(bits::VALUE_UNDEFINED));
    assert!(bits::VALUE_NULL != bits::VALUE_UNDEFINED);
}

/// Unambiguous: for EVERY 64-bit word at most one real type predicate holds (all 2^64 words).
// FN: bits::is_float, bits::is_integer32, bits::is_bool, bits::is_object, bits::is_string, bits::is_symbol, bits::is_bigint
#[kani::proof]
fn c12_bits_partition_disjoint() {
    let v: u64 = kani::any();
    kani::cover!(real_count(v) == 0); // signalling-NaN words with tag 1..7: no constructor makes them
    kani::cover!(real_count(v) == 1);
    assert!(real_count(v) <= 1);
    assert!(real_count(v) == s_count(v));
}

/// Lossless int32: all 2^32 values.
// FN: bits::tag_i32, bits::untag_i32, bits::is_integer32
#[kani::proof]
fn c12_bits_i32_roundtrip() {
    let i: i32 = kani::any();
    kani::cover!(i == i32::MIN);
    let w = bits::tag_i32(i);
    assert!(bits::untag_i32(w) == i);
    assert!(bits::is_integer32(w) && real_count(w) == 1);
}

// FN: bits::tag_bool, bits::untag_bool, bits::is_bool
#[kani::proof]
fn c12_bits_bool_roundtrip() {
    let b: bool = kani::any();
    kani::cover!(b);
    let w = bits::tag_bool(b);
    assert!(bits::untag_bool(w) == b);
    assert!(bits::is_bool(w) && real_count(w) == 1);
    assert!(w == if b { bits::VALUE_TRUE } else { bits::VALUE_FALSE });
}

/// Lossless doubles: every non-NaN double keeps its exact bits (so -0, subnormals, infinities
/// survive), every NaN payload becomes the canonical NaN; the word is a float word and nothing else.
// FN: bits::tag_f64, bits::is_float
#[kani::proof]
fn c12_bits_f64_roundtrip() {
    let f: f64 = kani::any();
    kani::cover!(f.is_nan());
    kani::cover!(!f.is_nan());
    let w = bits::tag_f64(f);
    assert!(bits::is_float(w) && real_count(w) == 1);
    let back = f64::from_bits(w);
    if f.is_nan() {
        assert!(back.is_nan() && w == CANONICAL_NAN);
    } else {
        assert!(back.to_bits() == f.to_bits());
    }
}

/// Heap references: for every non-null 48-bit address and each of the four pointer masks the
/// tagged word has exactly that type and gives the address back.
// FN: bits::tag_pointer, bits::untag_pointer
// ALSO: C02
#[kani::proof]
fn c12_bits_pointer_roundtrip() {
    let a: usize = kani::any();
    kani::assume(a != 0 && (a as u64) < (1u64 << 48));
    let which: u8 = kani::any();
    kani::assume(which < 4);
    let mask = match which {
        0 => bits::MASK_OBJECT,
        1 => bits::MASK_STRING,
        2 => bits::MASK_SYMBOL,
        _ => bits::MASK_BIGINT,
    };
    kani::cover!(which == 3 && a == (1usize << 48) - 1);
    kani::cover!(which == 0 && a == 1);
    let p: NonNull<u8> = NonNull::new(ptr::without_provenance_mut::<u8>(a)).unwrap();
    let w = bits::tag_pointer(p, mask);
    assert!(bits::untag_pointer(w) == a);
    assert!(w & bits::MASK_KIND == mask);
    assert!(real_count(w) == 1 && !bits::is_float(w));
    assert!(match which {
        0 => bits::is_object(w),
        1 => bits::is_string(w),
        2 => bits::is_symbol(w),
        _ => bits::is_bigint(w),
    });
}

/// Addresses that need more than 48 bits hit the documented panic instead of being truncated.
// EXPECT-PANIC: this platform is not compatible with a nan-boxed
// FN: bits::tag_pointer
// ALSO: C02
#[kani::proof]
#[kani::should_panic]
fn c12_bits_pointer_too_wide_panics() {
    let a: usize = kani::any();
    kani::assume((a as u64) >= (1u64 << 48));
    let p: NonNull<u8> = NonNull::new(ptr::without_provenance_mut::<u8>(a)).unwrap();
    let w = bits::tag_pointer(p, bits::MASK_OBJECT);
    // not reached: a returning call would have silently dropped address bits
    assert!(bits::untag_pointer(w) == a, "RETURNED-WITH-TRUNCATED-ADDRESS");
}

// --------------------------------------------------------------------- NanBoxedValue (the type)

fn forged(v: u64) -> ManuallyDrop<NanBoxedValue> {
    ManuallyDrop::new(NanBoxedValue::from_inner_unchecked(v))
}

/// `from_inner_unchecked` / `value` are inverse on all words.
// FN: NanBoxedValue::from_inner_unchecked, NanBoxedValue::value
#[kani::proof]
fn c12_nb_word_roundtrip() {
    let v: u64 = kani::any();
    kani::cover!(v > u32::MAX as u64);
    let x = forged(v);
    assert!(x.value() == v);
}

/// Every `is_*` observer of the type agrees with the specification on every word, `get_type`
/// agrees with them.
// FN: NanBoxedValue::is_undefined, NanBoxedValue::is_null, NanBoxedValue::is_null_or_undefined, NanBoxedValue::is_bool, NanBoxedValue::is_float64, NanBoxedValue::is_negative_zero, NanBoxedValue::is_integer32, NanBoxedValue::is_bigint, NanBoxedValue::is_object, NanBoxedValue::is_symbol, NanBoxedValue::is_string, NanBoxedValue::get_type
#[kani::proof]
fn c12_nb_observers() {
    let v: u64 = kani::any();
    let x = forged(v);
    kani::cover!(s_is_other(v) && v & 0xFFFF_FFFF_FFFF > 1);
    assert!(x.is_float64() == s_is_float(v));
    assert!(x.is_integer32() == s_is_int32(v));
    assert!(x.is_bool() == s_is_bool(v));
    assert!(x.is_object() == s_is_object(v));
    assert!(x.is_string() == s_is_string(v));
    assert!(x.is_symbol() == s_is_symbol(v));
    assert!(x.is_bigint() == s_is_bigint(v));
    assert!(x.is_null_or_undefined() == s_is_other(v));
    assert!(x.is_null() == (v == 0x7FFB_0000_0000_0000));
    assert!(x.is_undefined() == (v == 0x7FFB_0000_0000_0001));
    assert!(x.is_negative_zero() == (v == 0x8000_0000_0000_0000));
    let t = x.get_type();
    assert!(matches!(t, Type::Object) == s_is_object(v));
    assert!(matches!(t, Type::String) == s_is_string(v));
    assert!(matches!(t, Type::Symbol) == s_is_symbol(v));
    assert!(matches!(t, Type::BigInt) == s_is_bigint(v));
    assert!(matches!(t, Type::Boolean) == s_is_bool(v));
    assert!(matches!(t, Type::Null) == (v == 0x7FFB_0000_0000_0000));
    if s_is_float(v) || s_is_int32(v) {
        assert!(matches!(t, Type::Number));
    }
}

/// Doubles through the type: exactly a Number, content intact.
// FN: NanBoxedValue::float64, NanBoxedValue::as_float64, NanBoxedValue::as_integer32, NanBoxedValue::as_bool, NanBoxedValue::get_type, NanBoxedValue::to_boolean
#[kani::proof]
fn c12_nb_float64() {
    let f: f64 = kani::any();
    kani::cover!(f.is_nan() && f.to_bits() >> 48 == 0xFFFD); // a payload that looks like a tagged String
    kani::cover!(f == 0.0 && f.is_sign_negative());
    let x = ManuallyDrop::new(NanBoxedValue::float64(f));
    assert!(x.is_float64());
    assert!(!x.is_integer32() && !x.is_bool() && !x.is_null_or_undefined());
    assert!(!x.is_object() && !x.is_string() && !x.is_symbol() && !x.is_bigint());
    assert!(matches!(x.get_type(), Type::Number));
    assert!(x.as_integer32().is_none() && x.as_bool().is_none());
    let Some(back) = x.as_float64() else { panic!("a stored double is not read back as a double") };
    if f.is_nan() {
        assert!(back.is_nan());
    } else {
        assert!(back.to_bits() == f.to_bits());
    }
    assert!(x.is_negative_zero() == (f.to_bits() == 0x8000_0000_0000_0000));
    // ToBoolean(number): false for +0, -0, NaN
    assert!(x.to_boolean() == !(f == 0.0 || f.is_nan()));
}

// FN: NanBoxedValue::integer32, NanBoxedValue::as_integer32, NanBoxedValue::as_float64, NanBoxedValue::to_boolean
#[kani::proof]
fn c12_nb_integer32() {
    let i: i32 = kani::any();
    kani::cover!(i == -1);
    let x = ManuallyDrop::new(NanBoxedValue::integer32(i));
    assert!(x.is_integer32() && !x.is_float64() && !x.is_bool() && !x.is_null_or_undefined());
    assert!(!x.is_object() && !x.is_string() && !x.is_symbol() && !x.is_bigint());
    assert!(matches!(x.get_type(), Type::Number));
    assert!(x.as_integer32() == Some(i));
    assert!(x.as_float64().is_none() && x.as_bool().is_none());
    assert!(x.to_boolean() == (i != 0));
}

// FN: NanBoxedValue::boolean, NanBoxedValue::as_bool, NanBoxedValue::null, NanBoxedValue::undefined, NanBoxedValue::to_boolean
#[kani::proof]
fn c12_nb_bool_null_undefined() {
    let b: bool = kani::any();
    kani::cover!(b);
    let x = ManuallyDrop::new(NanBoxedValue::boolean(b));
    assert!(x.is_bool() && !x.is_float64() && !x.is_integer32() && !x.is_null_or_undefined());
    assert!(matches!(x.get_type(), Type::Boolean));
    assert!(x.as_bool() == Some(b) && x.to_boolean() == b);
    assert!(x.as_integer32().is_none() && x.as_float64().is_none());
    let n = ManuallyDrop::new(NanBoxedValue::null());
    let u = ManuallyDrop::new(NanBoxedValue::undefined());
    assert!(n.is_null() && !n.is_undefined() && n.is_null_or_undefined());
    assert!(u.is_undefined() && !u.is_null() && u.is_null_or_undefined());
    assert!(matches!(n.get_type(), Type::Null) && matches!(u.get_type(), Type::Undefined));
    assert!(!n.to_boolean() && !u.to_boolean());
    assert!(n.as_bool().is_none() && u.as_bool().is_none());
    assert!(!n.is_float64() && !u.is_float64() && !n.is_bool() && !u.is_bool());
}

/// `as_bool` accepts exactly the two boolean words, `as_integer32` exactly the int32 words,
/// `as_float64` exactly the float words - for every 64-bit word.
// FN: NanBoxedValue::as_bool, NanBoxedValue::as_integer32, NanBoxedValue::as_float64
#[kani::proof]
fn c12_nb_accessors_all_words() {
    let v: u64 = kani::any();
    let x = forged(v);
    kani::cover!(s_is_bool(v) && v & 0xFFFF_FFFF_FFFF > 1);
    assert!(x.as_bool().is_some() == (v == 0x7FFA_0000_0000_0000 || v == 0x7FFA_0000_0000_0001));
    assert!(x.as_integer32().is_some() == s_is_int32(v));
    assert!(x.as_float64().is_some() == s_is_float(v));
    if let Some(i) = x.as_integer32() {
        assert!(i == v as u32 as i32);
    }
    if let Some(f) = x.as_float64() {
        assert!(f.to_bits() == v);
    }
}

#[kani::proof]
fn c12_nb_canary_must_fail() {
    let a: usize = kani::any();
    kani::assume(a != 0 && (a as u64) < (1u64 << 48));
    let _x = forged(kani::any());
    assert!(false, "canary");
}

#[cfg(verif_replay)]
include!("/verif/.cache/playback/nan_boxed.rs");
