//! C06 kernel: the `Slot` / `SlotAttributes` algebra that decides whether a property location may be
//! memoised by an inline cache (boa_engine::object::shape::slot).
//!
//! Pulled in by `#[cfg(kani)] #[path = "/verif/kani/engine/slot.rs"] mod verif_kani;`
//! in /repo/core/engine/src/object/shape/slot.rs.
//!
//! Spec (from the property statement + the flag documentation): a location is cacheable iff the lookup
//! FOUND it and nothing marked it NOT_CACHEABLE; a slot that was already served from a prototype and is
//! seen through a prototype again must become NOT_CACHEABLE; data properties take one storage cell,
//! accessors two; consecutive slots neither overlap nor leave gaps.

// ASSUME-FILE[assume]: only the overflow precondition of `from_previous` (index + width fits u32).

use super::*;

pub(crate) const WRITABLE: u8 = 0x01;
pub(crate) const GET: u8 = 0x08;
pub(crate) const SET: u8 = 0x10;
pub(crate) const PROTOTYPE: u8 = 0x20;
pub(crate) const FOUND: u8 = 0x40;
pub(crate) const NOT_CACHEABLE: u8 = 0x80;

pub(crate) fn s_accessor(b: u8) -> bool {
    b & (GET | SET) != 0
}
pub(crate) fn s_width(b: u8) -> u32 {
    if s_accessor(b) { 2 } else { 1 }
}
pub(crate) fn s_cacheable(b: u8) -> bool {
    b & FOUND != 0 && b & NOT_CACHEABLE == 0
}
/// `if PROTOTYPE { |= NOT_CACHEABLE }`, every other bit and the index untouched.
pub(crate) fn post_set_not_cacheable(old: Slot, new: Slot) -> bool {
    let (o, n) = (old.attributes.bits(), new.attributes.bits());
    new.index == old.index && n == if o & PROTOTYPE != 0 { o | NOT_CACHEABLE } else { o }
}
pub(crate) fn post_from_previous(prev: Option<Slot>, attrs: SlotAttributes, r: Slot) -> bool {
    r.attributes.bits() == attrs.bits()
        && match prev {
            None => r.index == 0,
            Some(p) => r.index as u64 == p.index as u64 + s_width(p.attributes.bits()) as u64,
        }
}

fn any_attrs() -> SlotAttributes {
    SlotAttributes::from_bits_retain(kani::any())
}
fn any_slot() -> Slot {
    Slot { index: kani::any(), attributes: any_attrs() }
}

#[kani::proof]
fn c06_flag_constants() {
    kani::cover!(true);
    assert!(SlotAttributes::WRITABLE.bits() == WRITABLE);
    assert!(SlotAttributes::GET.bits() == GET && SlotAttributes::SET.bits() == SET);
    assert!(SlotAttributes::PROTOTYPE.bits() == PROTOTYPE);
    assert!(SlotAttributes::FOUND.bits() == FOUND);
    assert!(SlotAttributes::NOT_CACHEABLE.bits() == NOT_CACHEABLE);
    assert!(SlotAttributes::INLINE_CACHE_BITS.bits() == PROTOTYPE | FOUND | NOT_CACHEABLE);
    // the branch-free trick in set_not_cacheable_if_already_prototype relies on this
    assert!(PROTOTYPE << 2 == NOT_CACHEABLE);
    let s = Slot::new();
    assert!(s.index == 0 && s.attributes.bits() == 0 && !s.is_cacheable());
}

#[kani::proof_for_contract(SlotAttributes::is_cacheable)]
fn c06_attr_is_cacheable() {
    let a = any_attrs();
    kani::cover!(s_cacheable(a.bits()));
    kani::cover!(a.bits() & FOUND != 0 && !s_cacheable(a.bits()));
    assert!(a.is_cacheable() == s_cacheable(a.bits())); // mirror (native replay)
}

#[kani::proof_for_contract(SlotAttributes::width)]
fn c06_attr_width() {
    let a = any_attrs();
    kani::cover!(s_accessor(a.bits()));
    kani::cover!(!s_accessor(a.bits()));
    assert!(a.width() == s_width(a.bits()));
}

#[kani::proof_for_contract(SlotAttributes::is_accessor_descriptor)]
fn c06_attr_is_accessor() {
    let a = any_attrs();
    kani::cover!(a.bits() & GET != 0 && a.bits() & SET == 0);
    assert!(a.is_accessor_descriptor() == s_accessor(a.bits()));
}

// FN: SlotAttributes::has_get, SlotAttributes::has_set, SlotAttributes::width_match
#[kani::proof]
fn c06_attr_get_set_width_match() {
    let (a, b) = (any_attrs(), any_attrs());
    kani::cover!(a.width_match(b) && a.bits() != b.bits());
    assert!(a.has_get() == (a.bits() & GET != 0));
    assert!(a.has_set() == (a.bits() & SET != 0));
    assert!(a.width_match(b) == (s_width(a.bits()) == s_width(b.bits())));
}

#[kani::proof_for_contract(Slot::is_cacheable)]
fn c06_slot_is_cacheable() {
    let s = any_slot();
    kani::cover!(s_cacheable(s.attributes.bits()));
    assert!(s.is_cacheable() == s_cacheable(s.attributes.bits()));
}

#[kani::proof_for_contract(Slot::width)]
fn c06_slot_width() {
    let s = any_slot();
    kani::cover!(s_width(s.attributes.bits()) == 2);
    assert!(s.width() == s_width(s.attributes.bits()));
}

#[kani::proof_for_contract(Slot::from_previous)]
fn c06_slot_from_previous() {
    let prev: Option<Slot> = if kani::any() { Some(any_slot()) } else { None };
    let attrs = any_attrs();
    // precondition: the storage index does not overflow u32
    kani::assume(prev.is_none_or(|p| p.index <= u32::MAX - 2));
    kani::cover!(prev.is_some_and(|p| s_accessor(p.attributes.bits())));
    kani::cover!(prev.is_none());
    let r = Slot::from_previous(prev, attrs);
    assert!(post_from_previous(prev, attrs, r));
}

#[kani::proof_for_contract(Slot::set_not_cacheable_if_already_prototype)]
fn c06_slot_set_not_cacheable_if_already_prototype() {
    let mut s = any_slot();
    let old = s;
    kani::cover!(old.attributes.bits() & PROTOTYPE != 0 && old.attributes.bits() & NOT_CACHEABLE == 0);
    kani::cover!(old.attributes.bits() & PROTOTYPE == 0);
    s.set_not_cacheable_if_already_prototype();
    assert!(post_set_not_cacheable(old, s));
    // consequence used by the caches: a slot found through two prototype hops is never cacheable
    if old.attributes.bits() & PROTOTYPE != 0 {
        assert!(!s.is_cacheable());
    }
}

/// Consecutive slots tile the storage: no overlap, no gap (the layout the cached index points into).
// FN: Slot::from_previous, Slot::width
#[kani::proof]
fn c06_slots_tile_storage() {
    let first = Slot::from_previous(None, any_attrs());
    let second = Slot::from_previous(Some(first), any_attrs());
    let third = Slot::from_previous(Some(second), any_attrs());
    kani::cover!(third.index == 4);
    kani::cover!(third.index == 2);
    assert!(first.index == 0);
    assert!(second.index == first.index + first.width());
    assert!(third.index == second.index + second.width());
    assert!(third.index >= 2 && third.index <= 4);
}

#[kani::proof]
fn c06_canary_must_fail() {
    let s = any_slot();
    kani::assume(s.index <= u32::MAX - 2);
    assert!(false, "canary");
}

#[cfg(verif_replay)]
include!("/verif/.cache/playback/slot.rs");
