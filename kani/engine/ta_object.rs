//! C15 kernel (1): view geometry of the real `TypedArray`
//! (`boa_engine::builtins::typed_array::object`): `is_out_of_bounds`, `array_length`, `byte_length`,
//! `validate_index`, `validate_index_u64`.
//!
//! Pulled in by `#[cfg(kani)] #[path = "/verif/kani/engine/ta_object.rs"] mod verif_kani;`
//! in /repo/core/engine/src/builtins/typed_array/object.rs (child module: sees the private fields).
//!
//! Spec functions follow ECMAScript 10.4.5.* / 23.2.* (IsTypedArrayOutOfBounds, TypedArrayLength,
//! TypedArrayByteLength, IsValidIntegerIndex) in u128 arithmetic, so that an overflow in the code's
//! u64 arithmetic shows up as a mismatch.

// ASSUME-FILE[assume]: `kani::assume` restricts the symbolic `TypedArray` to `ta_valid`, the invariant its
//   three construction sites (typed_array/builtin.rs: allocate_buffer, initialize_from_typed_array,
//   initialize_from_array_buffer) establish; it is NOT re-verified here that they do (they take a Context).
// ASSUME-FILE[transmute]: the `viewed_array_buffer` field is a forged dangling `JsObject` (a `Gc` cannot be
//   allocated under Kani); none of the functions under contract reads it.
// ASSUME-FILE[drop]: the forged `TypedArray` is wrapped in ManuallyDrop so the dangling buffer handle is never
//   dropped.
// ASSUME-FILE[unsafe]: `unsafe` only for the transmute that forges the unused buffer handle.

use super::*;
use std::mem::ManuallyDrop;

const MAX_SAFE: u128 = 1u128 << 53;

pub(crate) fn es(t: &TypedArray) -> u128 {
    match t.kind {
        TypedArrayKind::Int8 | TypedArrayKind::Uint8 | TypedArrayKind::Uint8Clamped => 1,
        TypedArrayKind::Int16 | TypedArrayKind::Uint16 => 2,
        #[cfg(feature = "float16")]
        TypedArrayKind::Float16 => 2,
        TypedArrayKind::Int32 | TypedArrayKind::Uint32 | TypedArrayKind::Float32 => 4,
        TypedArrayKind::BigInt64 | TypedArrayKind::BigUint64 | TypedArrayKind::Float64 => 8,
    }
}

/// What the construction sites establish (DESIGN.md 4.4): offset aligned to the element size;
/// fixed-length views record byte_length = array_length * elementSize and fitted a buffer that
/// existed (so offset + byte_length is at most 2^53, the largest ToIndex result); length-tracking
/// views record neither length.
pub(crate) fn ta_valid(t: &TypedArray) -> bool {
    let off = t.byte_offset as u128;
    if off % es(t) != 0 || off > MAX_SAFE {
        return false;
    }
    match (t.array_length, t.byte_length) {
        (None, None) => true,
        (Some(n), Some(b)) => (n as u128) * es(t) == b as u128 && off + (n as u128) * es(t) <= MAX_SAFE,
        _ => false,
    }
}

/// Buffer byte lengths come from ToIndex (ArrayBuffer / resize / grow): at most 2^53 - 1.
pub(crate) fn buf_ok(buf: usize) -> bool {
    (buf as u128) < MAX_SAFE
}

/// IsTypedArrayOutOfBounds for a non-detached buffer of `buf` bytes.
pub(crate) fn s_oob(t: &TypedArray, buf: usize) -> bool {
    let (off, buf) = (t.byte_offset as u128, buf as u128);
    let end = match t.array_length {
        None => buf,
        Some(n) => off + (n as u128) * es(t),
    };
    off > buf || end > buf
}

/// TypedArrayLength (precondition: not out of bounds).
pub(crate) fn s_array_length(t: &TypedArray, buf: usize) -> u128 {
    match t.array_length {
        Some(n) => n as u128,
        None => (buf as u128 - t.byte_offset as u128) / es(t),
    }
}

/// TypedArrayByteLength.
pub(crate) fn s_byte_length(t: &TypedArray, buf: usize) -> u128 {
    if s_oob(t, buf) {
        return 0;
    }
    s_array_length(t, buf) * es(t)
}

/// Element `i` of the view lies completely inside a buffer of `buf` bytes.
pub(crate) fn elem_in_buffer(t: &TypedArray, i: u64, buf: usize) -> bool {
    t.byte_offset as u128 + (i as u128 + 1) * es(t) <= buf as u128
}

/// IsIntegralNumber(f) && f is not -0 && f >= 0, phrased without `fract`/`trunc`:
/// doubles >= 2^53 are all integers; below that `(f as u64) as f64 == f` is exact.
pub(crate) fn s_nonneg_integral(f: f64) -> bool {
    if !f.is_finite() || f.to_bits() == 0x8000_0000_0000_0000 || f < 0.0 {
        return false;
    }
    f >= 9007199254740992.0 || (f as u64) as f64 == f
}

/// IsValidIntegerIndex, returning the index.
pub(crate) fn s_validate_index(t: &TypedArray, f: f64, buf: usize) -> Option<u64> {
    if !s_nonneg_integral(f) || s_oob(t, buf) {
        return None;
    }
    let len = s_array_length(t, buf); // <= 2^64 / es, exact as u128
    // f is a non-negative integer: f < len  <=>  f < 2^64 and (f as u128) < len
    if f >= 18446744073709551616.0 || (f as u128) >= len {
        return None;
    }
    Some(f as u64)
}

pub(crate) fn s_validate_index_u64(t: &TypedArray, i: u64, buf: usize) -> Option<u64> {
    if s_oob(t, buf) || (i as u128) >= s_array_length(t, buf) {
        return None;
    }
    Some(i)
}

// ---------------------------------------------------------------------------------- generators

fn any_kind() -> TypedArrayKind {
    let k: u8 = kani::any();
    match k % 12 {
        #[cfg(feature = "float16")]
        11 => TypedArrayKind::Float16,
        0 => TypedArrayKind::Int8,
        1 => TypedArrayKind::Uint8,
        2 => TypedArrayKind::Uint8Clamped,
        3 => TypedArrayKind::Int16,
        4 => TypedArrayKind::Uint16,
        5 => TypedArrayKind::Int32,
        6 => TypedArrayKind::Uint32,
        7 => TypedArrayKind::BigInt64,
        8 => TypedArrayKind::BigUint64,
        9 => TypedArrayKind::Float32,
        _ => TypedArrayKind::Float64,
    }
}

/// Any `TypedArray` satisfying `ta_valid`, with a forged (never used) buffer handle.
fn any_ta() -> ManuallyDrop<TypedArray> {
    // ASSUME[transmute]: see file header - forged, never dereferenced, never dropped.
    let forged: JsObject<crate::builtins::array_buffer::ArrayBuffer> =
        unsafe { std::mem::transmute(std::ptr::NonNull::<u8>::dangling()) };
    let array_length: Option<u64> = kani::any();
    let byte_length: Option<u64> = kani::any();
    let t = ManuallyDrop::new(TypedArray::new(
        BufferObject::Buffer(forged),
        any_kind(),
        kani::any(),
        byte_length,
        array_length,
    ));
    kani::assume(ta_valid(&t));
    t
}

// ----------------------------------------------------------------------- in-place contracts

// ALSO: C02
#[kani::proof_for_contract(TypedArray::is_out_of_bounds)]
fn c15_ta_is_out_of_bounds() {
    let t = any_ta();
    let buf: usize = kani::any();
    kani::assume(buf_ok(buf));
    kani::cover!(t.array_length.is_none() && t.byte_offset as usize > buf);
    kani::cover!(t.array_length.is_some() && es(&t) == 8);
    let r = t.is_out_of_bounds(buf);
    assert!(r == s_oob(&t, buf)); // mirror of the in-place postcondition (native replay)
}

// ALSO: C02
#[kani::proof_for_contract(TypedArray::array_length)]
fn c15_ta_array_length() {
    let t = any_ta();
    let buf: usize = kani::any();
    kani::assume(buf_ok(buf));
    kani::assume(!s_oob(&t, buf));
    kani::cover!(t.array_length.is_none() && es(&t) == 4 && buf % 4 == 3);
    kani::cover!(t.array_length.is_some());
    let r = t.array_length(buf);
    assert!(r as u128 == s_array_length(&t, buf));
    // the whole view lies inside the buffer
    assert!(t.byte_offset as u128 + (r as u128) * es(&t) <= buf as u128);
}

#[kani::proof_for_contract(TypedArray::byte_length)]
fn c15_ta_byte_length() {
    let t = any_ta();
    let buf: usize = kani::any();
    kani::assume(buf_ok(buf));
    kani::cover!(s_oob(&t, buf));
    kani::cover!(!s_oob(&t, buf) && t.array_length.is_none() && es(&t) == 2 && buf % 2 == 1);
    let r = t.byte_length(buf);
    assert!(r as u128 == s_byte_length(&t, buf));
    assert!(s_oob(&t, buf) || t.byte_offset as u128 + r as u128 <= buf as u128);
}

#[kani::proof_for_contract(TypedArray::validate_index)]
fn c15_ta_validate_index() {
    let t = any_ta();
    let buf: usize = kani::any();
    kani::assume(buf_ok(buf));
    let f: f64 = kani::any();
    kani::cover!(f == 0.0 && f.is_sign_negative());
    kani::cover!(f > 4.0e9 && s_validate_index(&t, f, buf).is_some());
    kani::cover!(s_nonneg_integral(f) && !s_oob(&t, buf) && s_validate_index(&t, f, buf).is_none());
    let r = t.validate_index(f, buf);
    assert!(r == s_validate_index(&t, f, buf));
    if let Some(i) = r {
        // precondition of the unsafe `subslice(byte_index..).get_value(..)` at the call sites
        assert!(elem_in_buffer(&t, i, buf));
    }
}

#[kani::proof_for_contract(TypedArray::validate_index_u64)]
fn c15_ta_validate_index_u64() {
    let t = any_ta();
    let buf: usize = kani::any();
    kani::assume(buf_ok(buf));
    let i: u64 = kani::any();
    kani::cover!(s_validate_index_u64(&t, i, buf).is_some() && t.array_length.is_none());
    kani::cover!(!s_oob(&t, buf) && s_validate_index_u64(&t, i, buf).is_none());
    let r = t.validate_index_u64(i, buf);
    assert!(r == s_validate_index_u64(&t, i, buf));
    if let Some(i) = r {
        assert!(elem_in_buffer(&t, i, buf));
    }
}

/// The byte index computed at the call sites (`typed_array_get_element` / `set_element`:
/// `((index * size) + offset) as usize`) does not overflow and addresses a whole element inside the
/// buffer whenever `validate_index` accepted the index - for every view and every buffer length
/// (e.g. after a shrink of a resizable buffer).
// FN: TypedArray::validate_index, TypedArray::byte_offset, TypedArrayKind::element_size
// ALSO: C02
#[kani::proof]
fn c15_ta_call_site_byte_index() {
    let t = any_ta();
    let buf: usize = kani::any();
    kani::assume(buf_ok(buf));
    let f: f64 = kani::any();
    if let Some(index) = t.validate_index(f, buf) {
        let size = t.kind().element_size();
        let offset = t.byte_offset();
        kani::cover!(index > 0 && offset > 0 && size == 8);
        assert!(size as u128 == es(&t));
        let byte_index = ((index * size) + offset) as usize; // overflow would be a failed check
        assert!(byte_index as u128 + size as u128 <= buf as u128);
        assert!(byte_index as u64 % size == 0);
    }
}

/// TypedArrayKind::element_size is the Element Size column of Table 73.
// FN: TypedArrayKind::element_size
#[kani::proof]
fn c15_ta_element_size() {
    let t = any_ta();
    kani::cover!(es(&t) == 8);
    kani::cover!(es(&t) == 1);
    assert!(t.kind().element_size() as u128 == es(&t));
    assert!(t.is_auto_length() == t.array_length.is_none());
}

#[kani::proof]
fn c15_ta_canary_must_fail() {
    let t = any_ta();
    let buf: usize = kani::any();
    kani::assume(buf_ok(buf));
    kani::assume(!s_oob(&t, buf));
    assert!(false, "canary");
}

#[cfg(verif_replay)]
include!("/verif/.cache/playback/ta_object.rs");
