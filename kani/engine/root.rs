//! Crate-level verification module of boa_engine, pulled in by
//! `#[cfg(kani)] #[path = "/verif/kani/engine/root.rs"] pub(crate) mod verif_kani;` in
//! /repo/core/engine/src/lib.rs.
//!
//! * `spec`  - the specification library: ECMAScript abstract operations written independently of the
//!             code's algorithms (bit tests, i128 truncation, comparisons - never a re-implementation).
//!             In-place contracts in /repo refer to these as `crate::verif_kani::spec::*`.
//! * `c01_*` - Number kernel (pub(crate) API reachable from the crate root).
//! * `c12_api_*` - public `JsValue` API; the same harness text is proved on the default (NaN-boxed)
//!             build and on `--features jsvalue-enum`.

// ASSUME-FILE[assume]: `kani::assume` selects the input class named in the harness (finite / NaN / integral
//   doubles, in-range integers); no assumption narrows a contract's stated precondition.
// ASSUME-FILE[drop]: `JsValue`s holding int32 / bool / null / undefined are wrapped in ManuallyDrop: `Drop for
//   NanBoxedValue` dispatches on the tag through an int->pointer->int round trip that CBMC cannot constant-fold,
//   so its four pointer arms are explored with a forged address and SAT does not finish (measured: >150 s vs
//   0.6 s with the drop suppressed).  Drop of *double* values is exercised (c12_api_f64).  Not verified: that
//   dropping a non-pointer, non-double value touches no memory.
#![allow(dead_code, unused_imports, clippy::all, clippy::pedantic)]

pub(crate) mod spec {
    //! Independent specifications.

    /// 2^k as a double, exact (k in -1022..=1023): built from the exponent field.
    pub(crate) const fn pow2(k: i32) -> f64 {
        f64::from_bits(((k + 1023) as u64) << 52)
    }

    /// IEEE NaN test on the bits.
    pub(crate) const fn bits_nan(b: u64) -> bool {
        (b >> 52) & 0x7FF == 0x7FF && b & 0x000F_FFFF_FFFF_FFFF != 0
    }

    /// truncate(x) modulo 2^64 as an unsigned word, for every finite x.
    /// Every double with |x| >= 2^127 is a multiple of 2^75, hence 0 modulo 2^64 (and modulo any
    /// smaller power of two); below that `as i128` is the exact truncation.
    pub(crate) fn trunc_mod_2_64(x: f64) -> u64 {
        if !x.is_finite() {
            return 0;
        }
        if x >= pow2(127) || x <= -pow2(127) {
            return 0;
        }
        let t = x as i128; // exact truncation toward zero
        (t & 0xFFFF_FFFF_FFFF_FFFF) as u64 // two's complement & = mathematical mod 2^64
    }

    /// ECMAScript ToInt32 (7.1.6): NaN, +-0, +-inf -> 0; else int = truncate(x); int32bit = int modulo 2^32;
    /// if >= 2^31 subtract 2^32.
    pub(crate) fn to_int32(x: f64) -> i32 {
        (trunc_mod_2_64(x) & 0xFFFF_FFFF) as u32 as i32
    }
    /// ToUint32 (7.1.7)
    pub(crate) fn to_uint32(x: f64) -> u32 {
        (trunc_mod_2_64(x) & 0xFFFF_FFFF) as u32
    }
    /// ToInt16 / ToUint16 / ToInt8 / ToUint8 (7.1.8 - 7.1.11): the same with 2^16 / 2^8.
    pub(crate) fn to_int16(x: f64) -> i16 {
        (trunc_mod_2_64(x) & 0xFFFF) as u16 as i16
    }
    pub(crate) fn to_uint16(x: f64) -> u16 {
        (trunc_mod_2_64(x) & 0xFFFF) as u16
    }
    pub(crate) fn to_int8(x: f64) -> i8 {
        (trunc_mod_2_64(x) & 0xFF) as u8 as i8
    }
    pub(crate) fn to_uint8(x: f64) -> u8 {
        (trunc_mod_2_64(x) & 0xFF) as u8
    }
    /// ToBigInt64-style 64-bit wrap of a Number's integer part (used by `to_element_i64` style code).
    pub(crate) fn to_int64_wrap(x: f64) -> i64 {
        trunc_mod_2_64(x) as i64
    }

    /// ToUint8Clamp (7.1.12): NaN -> 0; clamp to [0,255]; f = floor(x); x < f+0.5 -> f; x > f+0.5 -> f+1;
    /// tie -> the even one of f, f+1.  For x in (0,255) the value f+0.5 is exactly representable
    /// (f < 2^8, one fractional bit), so the comparisons below are exact in binary64.
    pub(crate) fn to_uint8_clamp(x: f64) -> u8 {
        if x.is_nan() || x <= 0.0 {
            return 0;
        }
        if x >= 255.0 {
            return 255;
        }
        let f = x as u8; // 0 < x < 255: exact floor
        let fl = f as f64;
        let half = fl + 0.5;
        if x < half {
            f
        } else if x > half {
            f + 1
        } else if f & 1 == 0 {
            f
        } else {
            f + 1
        }
    }

    /// Number::sameValue (6.1.6.1.14): NaN equals NaN, +0 differs from -0, else numeric equality.
    pub(crate) fn same_value(a: f64, b: f64) -> bool {
        let (x, y) = (a.to_bits(), b.to_bits());
        if bits_nan(x) && bits_nan(y) {
            return true;
        }
        if bits_nan(x) || bits_nan(y) {
            return false;
        }
        x == y // two non-NaN doubles denote the same value (with signed zeros distinct) iff bit-equal
    }
    /// Number::sameValueZero: like sameValue but +0 == -0.
    pub(crate) fn same_value_zero(a: f64, b: f64) -> bool {
        let (x, y) = (a.to_bits(), b.to_bits());
        if bits_nan(x) && bits_nan(y) {
            return true;
        }
        if bits_nan(x) || bits_nan(y) {
            return false;
        }
        let zero = |w: u64| w & 0x7FFF_FFFF_FFFF_FFFF == 0;
        x == y || (zero(x) && zero(y))
    }
    /// Number::equal: false if either is NaN, +0 == -0, else same value.
    pub(crate) fn equal(a: f64, b: f64) -> bool {
        let (x, y) = (a.to_bits(), b.to_bits());
        if bits_nan(x) || bits_nan(y) {
            return false;
        }
        let zero = |w: u64| w & 0x7FFF_FFFF_FFFF_FFFF == 0;
        x == y || (zero(x) && zero(y))
    }

    /// Total order key of a non-NaN double (sign-magnitude -> offset binary); +0 and -0 get the same key.
    pub(crate) fn order_key(a: f64) -> i128 {
        let b = a.to_bits();
        let mag = (b & 0x7FFF_FFFF_FFFF_FFFF) as i128;
        if b >> 63 == 1 { -mag } else { mag }
    }
    /// Number::lessThan (6.1.6.1.12): undefined (None) if either is NaN, else mathematical `<`
    /// (with -0 == +0, -inf least, +inf greatest) - phrased on the integer order key, no float compare.
    pub(crate) fn less_than(a: f64, b: f64) -> Option<bool> {
        if bits_nan(a.to_bits()) || bits_nan(b.to_bits()) {
            return None;
        }
        Some(order_key(a) < order_key(b))
    }

    /// ToIntegerOrInfinity (7.1.5) as (is_pos_inf, is_neg_inf, integer): NaN, +-0 -> 0; +-inf -> +-inf;
    /// else truncate(x).  The real type stores an i64, so for |x| >= 2^63 the contract states the
    /// saturated value explicitly (i64::MAX / i64::MIN): see DESIGN.md C01.
    pub(crate) fn to_integer_or_infinity(x: f64) -> (bool, bool, i64) {
        if bits_nan(x.to_bits()) {
            return (false, false, 0);
        }
        if x.to_bits() == 0x7FF0_0000_0000_0000 {
            return (true, false, 0);
        }
        if x.to_bits() == 0xFFF0_0000_0000_0000 {
            return (false, true, 0);
        }
        if x >= pow2(63) {
            return (false, false, i64::MAX);
        }
        if x < -pow2(63) {
            return (false, false, i64::MIN);
        }
        (false, false, (x as i128) as i64)
    }

    /// ECMAScript ToBoolean on a Number.
    pub(crate) fn number_to_boolean(x: f64) -> bool {
        !(bits_nan(x.to_bits()) || x.to_bits() & 0x7FFF_FFFF_FFFF_FFFF == 0)
    }
}

use crate::builtins::Number;
use crate::value::{IntegerOrInfinity, JsValue, JsVariant, Type};
use std::mem::ManuallyDrop;

// =============================================================================== C01: Number kernel

// ALSO: C02
#[kani::proof_for_contract(crate::builtins::number::f64_to_int32)]
fn c01_f64_to_int32() {
    let x: f64 = kani::any();
    kani::cover!(x > 4294967296.0 && x < 1.0e30);
    kani::cover!(x < -2147483649.0);
    kani::cover!(x.is_nan());
    let r = crate::builtins::number::f64_to_int32(x);
    assert!(r == spec::to_int32(x)); // mirror of the in-place postcondition (native replay)
}

#[kani::proof_for_contract(crate::builtins::number::f64_to_uint32)]
fn c01_f64_to_uint32() {
    let x: f64 = kani::any();
    kani::cover!(x < -1.0);
    kani::cover!(x > 4294967296.0);
    let r = crate::builtins::number::f64_to_uint32(x);
    assert!(r == spec::to_uint32(x));
}

#[kani::proof_for_contract(Number::equal)]
fn c01_number_equal() {
    let (a, b): (f64, f64) = (kani::any(), kani::any());
    kani::cover!(a == 0.0 && b == 0.0 && a.to_bits() != b.to_bits());
    kani::cover!(a.is_nan() && b.is_nan());
    assert!(Number::equal(a, b) == spec::equal(a, b));
}

#[kani::proof_for_contract(Number::same_value)]
fn c01_number_same_value() {
    let (a, b): (f64, f64) = (kani::any(), kani::any());
    kani::cover!(a == 0.0 && b == 0.0 && a.to_bits() != b.to_bits());
    kani::cover!(a.is_nan() && b.is_nan() && a.to_bits() != b.to_bits());
    assert!(Number::same_value(a, b) == spec::same_value(a, b));
}

#[kani::proof_for_contract(Number::same_value_zero)]
fn c01_number_same_value_zero() {
    let (a, b): (f64, f64) = (kani::any(), kani::any());
    kani::cover!(a == 0.0 && b == 0.0 && a.to_bits() != b.to_bits());
    kani::cover!(a.is_nan() && b.is_nan() && a.to_bits() != b.to_bits());
    assert!(Number::same_value_zero(a, b) == spec::same_value_zero(a, b));
}

/// Number::lessThan (the enum `AbstractRelation` is not `Arbitrary`/`PartialEq`-comparable in a
/// contract closure, so the contract is stated in the harness).
// FN: Number::less_than
#[kani::proof]
fn c01_number_less_than() {
    use crate::value::AbstractRelation;
    let (a, b): (f64, f64) = (kani::any(), kani::any());
    kani::cover!(a.is_infinite() && b.is_infinite());
    kani::cover!(a == 0.0 && b == 0.0 && a.to_bits() != b.to_bits());
    kani::cover!(a.is_nan());
    let r = Number::less_than(a, b);
    match spec::less_than(a, b) {
        None => assert!(matches!(r, AbstractRelation::Undefined)),
        Some(true) => assert!(matches!(r, AbstractRelation::True)),
        Some(false) => assert!(matches!(r, AbstractRelation::False)),
    }
}

#[kani::proof_for_contract(Number::not)]
fn c01_number_not() {
    let x: f64 = kani::any();
    kani::cover!(x > 1.0e10);
    assert!(Number::not(x) == !spec::to_int32(x));
}

// FN: IntegerOrInfinity::from
// ALSO: C02
#[kani::proof]
fn c01_to_integer_or_infinity() {
    let x: f64 = kani::any();
    kani::cover!(x.is_nan());
    kani::cover!(x < -0.5 && x > -1.0);
    kani::cover!(x > 1.0e19);
    let r = IntegerOrInfinity::from(x);
    let (pi, ni, i) = spec::to_integer_or_infinity(x);
    if pi {
        assert!(matches!(r, IntegerOrInfinity::PositiveInfinity));
    } else if ni {
        assert!(matches!(r, IntegerOrInfinity::NegativeInfinity));
    } else {
        assert!(r == IntegerOrInfinity::Integer(i));
    }
}

/// clamp_finite(lo, hi) = min(max(v, lo), hi) with the infinities mapped to the bounds.
// FN: IntegerOrInfinity::clamp_finite
// ALSO: C02
#[kani::proof]
fn c01_clamp_finite() {
    let which: u8 = kani::any();
    let i: i64 = kani::any();
    let v = match which % 3 {
        0 => IntegerOrInfinity::Integer(i),
        1 => IntegerOrInfinity::PositiveInfinity,
        _ => IntegerOrInfinity::NegativeInfinity,
    };
    let (lo, hi): (i64, i64) = (kani::any(), kani::any());
    kani::assume(lo <= hi);
    kani::cover!(which % 3 == 0 && i < lo);
    kani::cover!(which % 3 == 0 && i > hi);
    kani::cover!(which % 3 == 1);
    let r: i64 = v.clamp_finite(lo, hi);
    let expect = match which % 3 {
        0 => {
            if i < lo {
                lo
            } else if i > hi {
                hi
            } else {
                i
            }
        }
        1 => hi,
        _ => lo,
    };
    assert!(r == expect);
    assert!(lo <= r && r <= hi);
}

/// A clamp of ToIntegerOrInfinity(x) to any range inside +-2^63 is unaffected by the i64
/// saturation of the representation (what callers such as relative-index computations rely on).
// FN: IntegerOrInfinity::from, IntegerOrInfinity::clamp_finite
#[kani::proof]
fn c01_clamp_of_to_integer() {
    let x: f64 = kani::any();
    let (lo, hi): (i64, i64) = (kani::any(), kani::any());
    kani::assume(lo <= hi);
    kani::cover!(x > 1.0e19);
    kani::cover!(x < -1.0e19);
    let r: i64 = IntegerOrInfinity::from(x).clamp_finite(lo, hi);
    let clamp = |t: i128| -> i64 {
        if t < lo as i128 {
            lo
        } else if t > hi as i128 {
            hi
        } else {
            t as i64
        }
    };
    if x.is_nan() {
        assert!(r == clamp(0));
    } else if x >= spec::pow2(63) {
        assert!(r == hi); // trunc(x) >= 2^63 > hi, also for +inf
    } else if x <= -spec::pow2(63) {
        assert!(r == lo); // trunc(x) <= -2^63 <= lo, also for -inf
    } else {
        assert!(r == clamp(x as i128)); // exact truncation
    }
}

#[kani::proof]
fn c01_canary_must_fail() {
    let x: f64 = kani::any();
    kani::assume(x.is_finite());
    assert!(false, "canary");
}


// NOTE: harnesses for `JsValue::{strict_equals, same_value, same_value_zero}` (value/equality.rs) and for the
// consistency of `Hash for JsValue` with SameValueZero (value/hash.rs) were written and measured: restricted to
// Number operands they do not finish in 10 min - both functions match on `(self.variant(), other.variant())`,
// whose pointer arms (clone/drop of string, bigint, object handles and the non-numeric comparison) CBMC cannot
// prune (DESIGN.md section 1).  They are kept in /verif/attempts/equality_hash.rs and are NOT part of any check.

// ====================================================================== C12: public JsValue API

fn only_number(v: &JsValue) -> bool {
    v.is_number()
        && !v.is_boolean()
        && !v.is_null()
        && !v.is_undefined()
        && !v.is_null_or_undefined()
        && !v.is_object()
        && !v.is_string()
        && !v.is_symbol()
        && !v.is_bigint()
}

/// Every double (all 2^64 bit patterns, every NaN payload) stored in a `JsValue` reads back as a
/// Number and as nothing else, with its content intact (NaN payloads may be canonicalised).
// FN: JsValue::new, JsValue::rational, JsValue::is_number, JsValue::as_number, JsValue::get_type, JsValue::to_boolean, JsValue::variant
// BOTH-FEATURES: jsvalue-enum
#[kani::proof]
fn c12_api_f64() {
    let f: f64 = kani::any();
    kani::cover!(f.is_nan() && f.to_bits() >> 48 == 0xFFFC); // payload that would look like an Object tag
    kani::cover!(f.is_nan() && f.to_bits() >> 48 == 0x7FF9); // ... like an Integer32 tag
    kani::cover!(f.to_bits() == 0x8000_0000_0000_0000);
    kani::cover!(f.is_infinite());
    let v = JsValue::new(f);
    assert!(only_number(&v));
    assert!(matches!(v.get_type(), Type::Number));
    assert!(v.as_boolean().is_none());
    let Some(back) = v.as_number() else { panic!("a stored double does not read back as a number") };
    if f.is_nan() {
        // "every NaN bit pattern must read back as the number NaN": the one canonical NaN, in BOTH
        // value representations - a kept payload is observable (hashing of Set/Map keys uses the bits,
        // typed-array stores write it back), so the two builds would behave differently.
        assert!(back.to_bits() == 0x7FF8_0000_0000_0000);
    } else {
        assert!(back.to_bits() == f.to_bits());
    }
    assert!(v.to_boolean() == spec::number_to_boolean(f));
    assert!(v.is_negative_zero() == (f.to_bits() == 0x8000_0000_0000_0000));
    match v.variant() {
        JsVariant::Float64(g) => {
            assert!(g.to_bits() == if f.is_nan() { 0x7FF8_0000_0000_0000 } else { f.to_bits() })
        }
        _ => panic!("variant of a stored double is not Float64"),
    }
}

/// All 2^32 int32 values.
// FN: JsValue::new, JsValue::as_i32, JsValue::as_number, JsValue::variant, JsValue::to_boolean
// BOTH-FEATURES: jsvalue-enum
#[kani::proof]
fn c12_api_i32() {
    let i: i32 = kani::any();
    kani::cover!(i == i32::MIN);
    kani::cover!(i == -1);
    let v = ManuallyDrop::new(JsValue::new(i));
    assert!(only_number(&v));
    assert!(matches!(v.get_type(), Type::Number));
    assert!(v.as_i32() == Some(i));
    assert!(v.to_boolean() == (i != 0));
    assert!(v.as_boolean().is_none());
    // content intact: the stored integer is read back bit for bit ...
    let JsVariant::Integer32(j) = v.variant() else { panic!("variant of a stored int32 is not Integer32") };
    assert!(j == i);
}

/// as_number of a stored int32 is the exact double of that integer.  Kept apart (thorough tier):
/// it makes SAT prove two int->float conversion circuits equal, which is slow (DESIGN.md section 1).
// FN: JsValue::as_number
// BOTH-FEATURES: jsvalue-enum
#[kani::proof]
fn c12x_api_i32_as_number() {
    let i: i32 = kani::any();
    kani::cover!(i == i32::MIN);
    let v = ManuallyDrop::new(JsValue::new(i));
    let Some(n) = v.as_number() else { panic!("int32 does not read back as a number") };
    assert!(n.to_bits() == f64::from(i).to_bits());
}

/// Wider / unsigned integers keep their numeric value (int32 when it fits, double otherwise).
// FN: JsValue::new
// BOTH-FEATURES: jsvalue-enum
#[kani::proof]
fn c12_api_other_ints() {
    let u: u32 = kani::any();
    kani::cover!(u > i32::MAX as u32);
    let v = ManuallyDrop::new(JsValue::new(u));
    assert!(only_number(&v));
    match v.variant() {
        JsVariant::Integer32(j) => assert!(j >= 0 && j as u32 == u),
        JsVariant::Float64(g) => assert!(u > i32::MAX as u32 && g.to_bits() == f64::from(u).to_bits()),
        _ => panic!("variant of a stored u32 is not a number"),
    }
    let b: i16 = kani::any();
    kani::cover!(b < 0);
    let v = ManuallyDrop::new(JsValue::new(b));
    assert!(only_number(&v) && v.as_i32() == Some(b as i32));
}

/// as_i32 on doubles: Some(k) exactly for the doubles that are an int32 value other than -0.
// FN: JsValue::as_i32
// BOTH-FEATURES: jsvalue-enum
#[kani::proof]
fn c12_api_as_i32_of_double() {
    let f: f64 = kani::any();
    let v = JsValue::new(f);
    kani::cover!(v.as_i32().is_some());
    kani::cover!(v.as_i32().is_none() && f.is_finite());
    match v.as_i32() {
        Some(k) => assert!((k as f64).to_bits() == f.to_bits()),
        None => {
            // then f is not the image of any int32: check against a symbolic witness
            let k: i32 = kani::any();
            assert!((k as f64).to_bits() != f.to_bits());
        }
    }
}

// FN: JsValue::new, JsValue::as_boolean, JsValue::null, JsValue::undefined, JsValue::nan, JsValue::positive_infinity, JsValue::negative_infinity
// BOTH-FEATURES: jsvalue-enum
#[kani::proof]
fn c12_api_bool_null_undefined_consts() {
    let b: bool = kani::any();
    kani::cover!(b);
    let v = ManuallyDrop::new(JsValue::new(b));
    assert!(v.is_boolean() && !v.is_number() && !v.is_null_or_undefined());
    assert!(!v.is_object() && !v.is_string() && !v.is_symbol() && !v.is_bigint());
    assert!(v.as_boolean() == Some(b) && v.to_boolean() == b);
    assert!(v.as_number().is_none() && v.as_i32().is_none());
    assert!(matches!(v.get_type(), Type::Boolean));
    assert!(matches!(v.variant(), JsVariant::Boolean(c) if c == b));
    let n = ManuallyDrop::new(JsValue::null());
    let u = ManuallyDrop::new(JsValue::undefined());
    assert!(n.is_null() && !n.is_undefined() && n.is_null_or_undefined() && !n.is_number() && !n.is_boolean());
    assert!(u.is_undefined() && !u.is_null() && u.is_null_or_undefined() && !u.is_number() && !u.is_boolean());
    assert!(matches!(n.get_type(), Type::Null) && matches!(u.get_type(), Type::Undefined));
    assert!(matches!(n.variant(), JsVariant::Null) && matches!(u.variant(), JsVariant::Undefined));
    assert!(!n.to_boolean() && !u.to_boolean());
    assert!(n.as_number().is_none() && u.as_number().is_none() && n.as_boolean().is_none());
    let nan = ManuallyDrop::new(JsValue::nan());
    assert!(only_number(&nan) && nan.as_number().is_some_and(f64::is_nan));
    let pi = ManuallyDrop::new(JsValue::positive_infinity());
    let ni = ManuallyDrop::new(JsValue::negative_infinity());
    assert!(only_number(&pi) && pi.as_number() == Some(f64::INFINITY));
    assert!(only_number(&ni) && ni.as_number() == Some(f64::NEG_INFINITY));
}

/// value -> variant() -> value is the identity on numbers, booleans, null and undefined:
/// same type, same content, -0 stays -0 and stays a double.
// FN: JsValue::variant, <JsValue as From<JsVariant>>::from
// BOTH-FEATURES: jsvalue-enum
#[kani::proof]
fn c12_api_variant_roundtrip_f64() {
    let f: f64 = kani::any();
    kani::cover!(f.to_bits() == 0x8000_0000_0000_0000);
    kani::cover!(f == 3.0);
    kani::cover!(f.is_nan());
    let v = JsValue::new(f);
    let w = JsValue::from(v.variant());
    assert!(only_number(&w));
    match w.variant() {
        JsVariant::Float64(g) => assert!(if f.is_nan() { g.is_nan() } else { g.to_bits() == f.to_bits() }),
        _ => panic!("a double came back from variant() -> JsValue as another variant"),
    }
    assert!(w.is_negative_zero() == v.is_negative_zero());
}

// FN: JsValue::variant, <JsValue as From<JsVariant>>::from
// BOTH-FEATURES: jsvalue-enum
#[kani::proof]
fn c12_api_variant_roundtrip_small() {
    let i: i32 = kani::any();
    let b: bool = kani::any();
    kani::cover!(i < 0 && b);
    let v = ManuallyDrop::new(JsValue::new(i));
    let w = ManuallyDrop::new(JsValue::from(v.variant()));
    assert!(matches!(w.variant(), JsVariant::Integer32(j) if j == i));
    let v = ManuallyDrop::new(JsValue::new(b));
    let w = ManuallyDrop::new(JsValue::from(v.variant()));
    assert!(matches!(w.variant(), JsVariant::Boolean(c) if c == b));
    let w = ManuallyDrop::new(JsValue::from(ManuallyDrop::new(JsValue::null()).variant()));
    assert!(w.is_null());
    let w = ManuallyDrop::new(JsValue::from(ManuallyDrop::new(JsValue::undefined()).variant()));
    assert!(w.is_undefined());
}

#[kani::proof]
fn c12_api_canary_must_fail() {
    let f: f64 = kani::any();
    let _v = JsValue::new(f);
    assert!(false, "canary");
}

#[cfg(verif_replay)]
include!("/verif/.cache/playback/root.rs");
