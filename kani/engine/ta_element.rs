//! C15 kernel (5): endianness of typed-array elements as DataView uses it
//! (`Element::{to_little_endian,to_big_endian,from_plain,to_plain}` for the 12 element types,
//! boa_engine::builtins::typed_array::element).
//!
//! Pulled in by `#[cfg(kani)] #[path = "/verif/kani/engine/ta_element.rs"] mod verif_kani;`
//! in /repo/core/engine/src/builtins/typed_array/element/mod.rs.
//!
//! Spec (ECMAScript NumericToRawBytes / RawBytesToNumeric): DataView stores `to_little_endian(v)` (or
//! `to_big_endian`) with a native-order store, so the bytes in memory must be the little- (big-) endian
//! encoding of v: on the little-endian target Kani verifies for, `to_little_endian` must leave the native
//! bytes unchanged and `to_big_endian` must reverse them; both are involutions.

// ASSUME-FILE[assume]: none beyond the symbolic element value.
// ASSUME-FILE[unwind]: the only loops are the harness's own fixed 8-iteration byte loops (unwind 9 > 8).

use super::*;

fn native<E: Element>(e: E) -> [u8; 8] {
    let mut out = [0u8; 8];
    let b = bytemuck::bytes_of(&e);
    let mut i = 0;
    while i < b.len() {
        out[i] = b[i];
        i += 1;
    }
    out
}

fn check_endianness<E: Element + Copy>(e: E) {
    let n = std::mem::size_of::<E>();
    let ne = native(e);
    let le = native(e.to_little_endian());
    let be = native(e.to_big_endian());
    // verified target is little-endian (stated assumption): LE = native bytes, BE = reversed
    assert!(cfg!(target_endian = "little"));
    let mut i = 0;
    while i < 8 {
        if i < n {
            assert!(le[i] == ne[i]);
            assert!(be[i] == ne[n - 1 - i]);
        }
        i += 1;
    }
    // involutions
    assert!(native(e.to_big_endian().to_big_endian()) == ne);
    assert!(native(e.to_little_endian().to_little_endian()) == ne);
    // plain <-> element is a bijection on the bits
    assert!(native(E::from_plain(e.to_plain())) == ne);
}

macro_rules! endian_harness {
    ($name:ident, $t:ty, $mk:expr) => {
        // FN: Element::to_little_endian, Element::to_big_endian, Element::from_plain, Element::to_plain
        #[kani::proof]
        #[kani::unwind(9)]
        fn $name() {
            let e: $t = $mk;
            kani::cover!(std::mem::size_of::<$t>() == 1 || native(e)[0] != native(e)[std::mem::size_of::<$t>() - 1]);
            check_endianness(e);
        }
    };
}
endian_harness!(c15_endian_u8, u8, kani::any());
endian_harness!(c15_endian_i8, i8, kani::any());
endian_harness!(c15_endian_clamped, ClampedU8, ClampedU8(kani::any()));
endian_harness!(c15_endian_u16, u16, kani::any());
endian_harness!(c15_endian_i16, i16, kani::any());
endian_harness!(c15_endian_u32, u32, kani::any());
endian_harness!(c15_endian_i32, i32, kani::any());
endian_harness!(c15_endian_u64, u64, kani::any());
endian_harness!(c15_endian_i64, i64, kani::any());
// ALSO: C12
endian_harness!(c15_endian_f32, f32, kani::any());
// ALSO: C12
endian_harness!(c15_endian_f64, f64, kani::any());
#[cfg(feature = "float16")]
endian_harness!(c15_endian_f16, Float16, Float16(float16::f16::from_bits(kani::any())));


// ------------------------------------------------------------------ Atomics read-modify-write operations

/// `Atomics.add/sub/and/or/xor/exchange/compareExchange` on an element (`ElementRefMut::{add,sub,bit_and,bit_or,
/// bit_xor,swap,compare_exchange}`): on a plain buffer and on a shared (atomic) buffer alike, the operation returns
/// the old value and leaves `old (op) value` (wrapping) in memory - the byte-array model of 25.4.
macro_rules! rmw_harness {
    ($name:ident, $t:ty, $atomic:ty) => {
        // FN: ElementRefMut::add, ElementRefMut::sub, ElementRefMut::bit_and, ElementRefMut::bit_or, ElementRefMut::bit_xor, ElementRefMut::swap, ElementRefMut::compare_exchange, ElementRefMut::store, ElementRef::load
        #[kani::proof]
        fn $name() {
            let (init, v, exp): ($t, $t, $t) = (kani::any(), kani::any(), kani::any());
            let op: u8 = kani::any();
            kani::assume(op < 7);
            kani::cover!(op == 0 && init.checked_add(v).is_none());
            kani::cover!(op == 6 && init == exp);
            kani::cover!(op == 6 && init != exp);
            let mut plain: $t = init;
            let atomic = <$atomic>::new(init);
            let apply = |mut r: ElementRefMut<'_, $t>| -> $t {
                match op {
                    0 => r.add(v, Ordering::SeqCst),
                    1 => r.sub(v, Ordering::SeqCst),
                    2 => r.bit_and(v, Ordering::SeqCst),
                    3 => r.bit_or(v, Ordering::SeqCst),
                    4 => r.bit_xor(v, Ordering::SeqCst),
                    5 => r.swap(v, Ordering::SeqCst),
                    _ => r.compare_exchange(exp, v, Ordering::SeqCst),
                }
            };
            let old_p = apply(ElementRefMut::Plain(&mut plain));
            let old_a = apply(ElementRefMut::Atomic(&atomic));
            let want = match op {
                0 => init.wrapping_add(v),
                1 => init.wrapping_sub(v),
                2 => init & v,
                3 => init | v,
                4 => init ^ v,
                5 => v,
                _ => {
                    if init == exp {
                        v
                    } else {
                        init
                    }
                }
            };
            assert!(old_p == init && old_a == init);
            assert!(plain == want);
            assert!(ElementRef::<$t>::Atomic(&atomic).load(Ordering::SeqCst) == want);
            assert!(ElementRef::<$t>::Plain(&plain).load(Ordering::SeqCst) == want);
        }
    };
}
rmw_harness!(c15_rmw_u8, u8, AtomicU8);
rmw_harness!(c15_rmw_i16, i16, AtomicI16);
rmw_harness!(c15_rmw_i32, i32, AtomicI32);
rmw_harness!(c15_rmw_u32, u32, AtomicU32);
rmw_harness!(c15_rmw_i64, i64, AtomicI64);
rmw_harness!(c15_rmw_u64, u64, AtomicU64);

#[cfg(verif_replay)]
include!("/verif/.cache/playback/ta_element.rs");
