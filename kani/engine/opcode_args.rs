//! C03 kernel (1): operand encoding / decoding of bytecode instructions
//! (`args::{read, Argument::encode, Argument::decode}` for every operand shape, boa_engine::vm::opcode::args).
//!
//! Pulled in by `#[cfg(kani)] #[path = "/verif/kani/engine/opcode_args.rs"] mod verif_kani;`
//! in /repo/core/engine/src/vm/opcode/args.rs.
//!
//! Spec ("each instruction decodes"): for every operand value x and every byte prefix p, after
//! `x.encode(&mut p)`: decode(p, old_len) == (x, p.len()), the prefix is unchanged, and exactly size(x)
//! bytes were appended; `read` returns the little-endian value at the offset and panics (internal
//! invariant assert) iff the buffer is too short - never reads outside the slice.

// ASSUME-FILE[assume]: bounds the symbolic prefix length / vector length (BOUND where it is a real bound).
// ASSUME-FILE[unwind]: Vec growth / copy loops over at most 24 bytes and ThinVec loops over at most 2 elements.

use super::*;

/// A byte prefix of symbolic length 0..=2 with symbolic content (varies the alignment of what follows).
fn any_prefix() -> Vec<u8> {
    let n: usize = kani::any();
    kani::assume(n <= 2);
    let mut v = Vec::new();
    let mut i = 0;
    while i < n {
        v.push(kani::any());
        i += 1;
    }
    v
}

macro_rules! scalar_roundtrip_harness {
    ($name:ident, $t:ty, $size:expr, $eq:expr) => {
        // FN: Argument::encode, Argument::decode, read
        #[kani::proof]
        #[kani::unwind(12)]
        fn $name() {
            let x: $t = kani::any();
            let mut p = any_prefix();
            let old = p.clone();
            kani::cover!(old.len() == 1);
            x.encode(&mut p);
            assert!(p.len() == old.len() + $size);
            assert!(p[..old.len()] == old[..]);
            let (y, pos) = <$t as Argument>::decode(&p, old.len());
            assert!(pos == p.len());
            let eq: fn($t, $t) -> bool = $eq;
            assert!(eq(x, y));
        }
    };
}
scalar_roundtrip_harness!(c03_arg_u8, u8, 1, |a, b| a == b);
scalar_roundtrip_harness!(c03_arg_i8, i8, 1, |a, b| a == b);
scalar_roundtrip_harness!(c03_arg_u16, u16, 2, |a, b| a == b);
scalar_roundtrip_harness!(c03_arg_i16, i16, 2, |a, b| a == b);
scalar_roundtrip_harness!(c03_arg_u32, u32, 4, |a, b| a == b);
scalar_roundtrip_harness!(c03_arg_i32, i32, 4, |a, b| a == b);
// ALSO: C02
scalar_roundtrip_harness!(c03_arg_u64, u64, 8, |a, b| a == b);
scalar_roundtrip_harness!(c03_arg_f32, f32, 4, |a, b| a.to_bits() == b.to_bits());
scalar_roundtrip_harness!(c03_arg_f64, f64, 8, |a, b| a.to_bits() == b.to_bits());

/// The three operand newtypes (jump target, register, table index) and a 5-tuple mixing them - the
/// widest instruction layout the macro instantiates.
// FN: <Address as Argument>::encode, <Address as Argument>::decode, <RegisterOperand as Argument>::decode, <IndexOperand as Argument>::decode, tuple Argument impls
// ALSO: C02
#[kani::proof]
#[kani::unwind(24)]
fn c03_arg_operand_types_and_tuples() {
    let (a, r, i, w, b): (u32, u32, u32, u16, u8) = (kani::any(), kani::any(), kani::any(), kani::any(), kani::any());
    // one symbolic prefix byte: the operands start at an odd offset (a symbolic-length Vec makes the
    // 15-byte append intractable for CBMC; position independence of `read` is shown by c03_read_in_range)
    let mut p: Vec<u8> = vec![kani::any()];
    let old = p.clone();
    kani::cover!(true);
    (Address::new(a), RegisterOperand::new(r), IndexOperand::from(i), w, b).encode(&mut p);
    assert!(p.len() == old.len() + 4 + 4 + 4 + 2 + 1);
    assert!(p[..old.len()] == old[..]);
    let ((a2, r2, i2, w2, b2), pos) =
        <(Address, RegisterOperand, IndexOperand, u16, u8) as Argument>::decode(&p, old.len());
    assert!(pos == p.len());
    assert!(u32::from(a2) == a && u32::from(r2) == r && u32::from(i2) == i && w2 == w && b2 == b);
    // the fields sit at their documented little-endian positions (what patch_jump relies on)
    let o = old.len();
    assert!(p[o..o + 4] == a.to_le_bytes());
    assert!(p[o + 4..o + 8] == r.to_le_bytes());
    // decoding a single operand from the middle gives that operand
    let (r3, pos3) = <RegisterOperand as Argument>::decode(&p, o + 4);
    assert!(u32::from(r3) == r && pos3 == o + 8);
}

/// Variable-length operand (jump tables, register lists).
// BOUND: vectors of 0, 1 or 2 elements (three harnesses), one prefix byte
// FN: <ThinVec<T> as Argument>::encode, <ThinVec<T> as Argument>::decode
// ALSO: C02
#[kani::proof]
#[kani::unwind(16)]
fn c03_arg_thinvec_2() {
    thinvec_roundtrip(2);
}
// BOUND: vectors of 0, 1 or 2 elements (three harnesses), one prefix byte
// FN: <ThinVec<T> as Argument>::encode, <ThinVec<T> as Argument>::decode
#[kani::proof]
#[kani::unwind(16)]
fn c03_arg_thinvec_1() {
    thinvec_roundtrip(1);
}
// BOUND: vectors of 0, 1 or 2 elements (three harnesses), one prefix byte
// FN: <ThinVec<T> as Argument>::encode, <ThinVec<T> as Argument>::decode
#[kani::proof]
#[kani::unwind(16)]
fn c03_arg_thinvec_0() {
    thinvec_roundtrip(0);
}
fn thinvec_roundtrip(n: usize) {
    let (e0, e1): (u32, u32) = (kani::any(), kani::any());
    let mut v: ThinVec<Address> = ThinVec::new();
    if n >= 1 {
        v.push(Address::new(e0));
    }
    if n >= 2 {
        v.push(Address::new(e1));
    }
    let mut p: Vec<u8> = vec![kani::any()];
    let old = p.clone();
    kani::cover!(true);
    v.encode(&mut p);
    assert!(p.len() == old.len() + 4 + 4 * n);
    assert!(p[..old.len()] == old[..]);
    assert!(p[old.len()..old.len() + 4] == (n as u32).to_le_bytes());
    let (w, pos) = <ThinVec<Address> as Argument>::decode(&p, old.len());
    assert!(pos == p.len() && w.len() == n);
    if n >= 1 {
        assert!(u32::from(w[0]) == e0);
    }
    if n >= 2 {
        assert!(u32::from(w[1]) == e1);
    }
}

/// `read` = little-endian value at the offset, new offset = offset + size, for every in-range offset
/// of a symbolic buffer; Kani's pointer checks cover the `read_unaligned`.
// FN: read, read_unchecked
// ALSO: C02
#[kani::proof]
fn c03_read_in_range() {
    let buf: [u8; 12] = kani::any();
    let off: usize = kani::any();
    kani::assume(off <= 12 - 8);
    kani::cover!(off == 3);
    let (a, p1) = read::<u32>(&buf, off);
    assert!(a == u32::from_le_bytes([buf[off], buf[off + 1], buf[off + 2], buf[off + 3]]) && p1 == off + 4);
    let (b, p2) = read::<u64>(&buf, off);
    assert!(b.to_le_bytes() == buf[off..off + 8] && p2 == off + 8);
    let (c, p3) = read::<u8>(&buf, off);
    assert!(c == buf[off] && p3 == off + 1);
    let ((d0, d1), p4) = read::<(u16, u16)>(&buf, off);
    assert!(d0 == u16::from_le_bytes([buf[off], buf[off + 1]]) && d1 == u16::from_le_bytes([buf[off + 2], buf[off + 3]]) && p4 == off + 4);
}

/// A truncated operand stream trips the internal-invariant assertion instead of reading out of bounds.
// EXPECT-PANIC: buffer too small to read type T
// FN: read
// ALSO: C02
#[kani::proof]
#[kani::should_panic]
fn c03_read_truncated_panics() {
    let buf: [u8; 6] = kani::any();
    let off: usize = kani::any();
    kani::assume(off <= 6 && off + 4 > 6);
    let (_v, p) = read::<u32>(&buf, off);
    assert!(p > 6, "RETURNED-FROM-A-TRUNCATED-READ");
}

#[kani::proof]
#[kani::unwind(12)]
fn c03_args_canary_must_fail() {
    let _p = any_prefix();
    assert!(false, "canary");
}

#[cfg(verif_replay)]
include!("/verif/.cache/playback/opcode_args.rs");
