//! C08 kernel: which errors a script can intercept (`JsError::{is_catchable, as_engine}` and the
//! `From` conversions that build engine errors, boa_engine::error) and the `RuntimeLimits` record
//! (boa_engine::vm::runtime_limits).
//!
//! Pulled in by `#[cfg(kani)] #[path = "/verif/kani/engine/error.rs"] mod verif_kani;`
//! in /repo/core/engine/src/error/mod.rs.
//!
//! Spec (property statement): a RuntimeLimitError (and an engine panic) is reported to the host and "no
//! catch or finally block observes it": every engine error is NOT catchable, every error a script can
//! legitimately throw (native error objects, arbitrary thrown values) IS catchable.

// ASSUME-FILE[drop]: `JsError` values are wrapped in ManuallyDrop: their drop glue reaches `JsObject` (Gc)
//   whose thread-local makes Kani's compiler crash (DESIGN.md section 1); no heap object is created here.
// ASSUME-FILE[assume]: none.
// ASSUME-FILE[unwind]: c08_panic_error: the live path is loop-free; the bound only cuts `Box<str>` allocation loops of a
//   zero-length message (unwinding assertions stay on).

use super::*;
use crate::vm::RuntimeLimits;
use std::mem::ManuallyDrop;

fn any_limit_error() -> RuntimeLimitError {
    let k: u8 = kani::any();
    match k % 3 {
        0 => RuntimeLimitError::LoopIteration,
        1 => RuntimeLimitError::Recursion,
        _ => RuntimeLimitError::StackSize,
    }
}

/// Every runtime-limit error, through both conversion routes, is an engine error and not catchable.
// FN: JsError::is_catchable, JsError::as_engine, <JsError as From<RuntimeLimitError>>::from, <JsError as From<EngineError>>::from
#[kani::proof]
fn c08_runtime_limit_errors_are_not_catchable() {
    let e = any_limit_error();
    kani::cover!(matches!(e, RuntimeLimitError::StackSize));
    kani::cover!(matches!(e, RuntimeLimitError::LoopIteration));
    let direct = ManuallyDrop::new(JsError::from(e));
    assert!(!direct.is_catchable());
    assert!(matches!(direct.as_engine(), Some(EngineError::RuntimeLimit(x)) if *x == e));
    assert!(direct.as_native().is_none() && direct.as_opaque().is_none());
    let via_engine = ManuallyDrop::new(JsError::from(EngineError::from(e)));
    assert!(!via_engine.is_catchable());
    assert!(matches!(via_engine.as_engine(), Some(EngineError::RuntimeLimit(x)) if *x == e));
}

/// An internal-invariant report (`EnginePanic`) cannot be swallowed by script code either.
// FN: JsError::is_catchable, <JsError as From<PanicError>>::from
#[kani::proof]
#[kani::unwind(2)]
fn c08_panic_error_is_not_catchable() {
    kani::cover!(true);
    let e = ManuallyDrop::new(JsError::from(ManuallyDrop::into_inner(ManuallyDrop::new(PanicError::new("")))));
    assert!(!e.is_catchable());
    assert!(matches!(e.as_engine(), Some(EngineError::Panic(_))));
}

/// Errors a script may throw stay catchable: native error objects ...
// FN: JsError::is_catchable, <JsError as From<JsNativeError>>::from
#[kani::proof]
fn c08_native_errors_are_catchable() {
    let k: u8 = kani::any();
    kani::cover!(k % 4 == 3);
    let n = match k % 4 {
        0 => JsNativeError::typ(),
        1 => JsNativeError::range(),
        2 => JsNativeError::syntax(),
        _ => JsNativeError::error(),
    };
    let e = ManuallyDrop::new(JsError::from(n));
    assert!(e.is_catchable() && e.as_engine().is_none() && e.as_native().is_some());
}

/// ... and arbitrary thrown values.  The error is built directly in its `Opaque` representation:
/// `JsError::from_opaque` first probes the value for an attached backtrace through `as_object()`, which
/// makes CBMC follow a forged object pointer (does not finish); that probe is not under contract.
// FN: JsError::is_catchable, JsError::as_opaque
#[kani::proof]
fn c08_thrown_values_are_catchable() {
    let v: f64 = kani::any();
    kani::cover!(v.is_nan());
    let o = ManuallyDrop::new(JsError { inner: Repr::Opaque(JsValue::new(v)), backtrace: None });
    assert!(o.is_catchable() && o.as_engine().is_none() && o.as_native().is_none());
    assert!(o.as_opaque().is_some_and(JsValue::is_number));
}

/// The limits record: each setter changes exactly its own limit, getters read it back, the defaults
/// are the documented ones.
// FN: RuntimeLimits::default, RuntimeLimits::loop_iteration_limit, RuntimeLimits::set_loop_iteration_limit, RuntimeLimits::disable_loop_iteration_limit, RuntimeLimits::recursion_limit, RuntimeLimits::set_recursion_limit, RuntimeLimits::stack_size_limit, RuntimeLimits::set_stack_size_limit, RuntimeLimits::backtrace_limit, RuntimeLimits::set_backtrace_limit
#[kani::proof]
fn c08_runtime_limits_record() {
    let d = RuntimeLimits::default();
    assert!(d.loop_iteration_limit() == u64::MAX && d.recursion_limit() == 512);
    assert!(d.stack_size_limit() == 10 * 1024 && d.backtrace_limit() == 50);
    let mut l = d;
    let (a, b, c, e): (u64, usize, usize, usize) = (kani::any(), kani::any(), kani::any(), kani::any());
    kani::cover!(a == 0 && b == 1);
    l.set_loop_iteration_limit(a);
    assert!(l.loop_iteration_limit() == a && l.recursion_limit() == 512 && l.stack_size_limit() == 10240 && l.backtrace_limit() == 50);
    l.set_recursion_limit(b);
    assert!(l.loop_iteration_limit() == a && l.recursion_limit() == b && l.stack_size_limit() == 10240 && l.backtrace_limit() == 50);
    l.set_stack_size_limit(c);
    assert!(l.loop_iteration_limit() == a && l.recursion_limit() == b && l.stack_size_limit() == c && l.backtrace_limit() == 50);
    l.set_backtrace_limit(e);
    assert!(l.loop_iteration_limit() == a && l.recursion_limit() == b && l.stack_size_limit() == c && l.backtrace_limit() == e);
    l.disable_loop_iteration_limit();
    assert!(l.loop_iteration_limit() == u64::MAX && l.recursion_limit() == b && l.stack_size_limit() == c && l.backtrace_limit() == e);
}

#[kani::proof]
fn c08_canary_must_fail() {
    let _e = any_limit_error();
    assert!(false, "canary");
}

#[cfg(verif_replay)]
include!("/verif/.cache/playback/error.rs");
