//! C15 kernel (3): element conversion between typed arrays
//! (`TypedArrayKind::{to_element_f64,to_element_i64}`, `TypedArrayElement::{cast,to_bits,as_f64,as_i64}`
//! in boa_engine::builtins::typed_array) - what `new Int8Array(otherTypedArray)` applies to each element.
//!
//! Pulled in by `#[cfg(kani)] #[path = "/verif/kani/engine/ta_mod.rs"] mod verif_kani;`
//! in /repo/core/engine/src/builtins/typed_array/mod.rs.
//!
//! Spec: converting a Number to element type T is the same modular conversion as storing that Number
//! (ECMAScript NumericToRawBytes / Table 73 conversion operations ToInt8 ... ToUint8Clamp), for EVERY double.

// ASSUME-FILE[assume]: input class selection only.
// ASSUME-FILE[drop]: the `JsValue` built from an element is wrapped in ManuallyDrop (see root.rs).

use super::*;
use crate::verif_kani::spec;

/// Number -> element of `kind`, by the conversion operation of Table 73.
pub(crate) fn s_to_element_f64(kind: TypedArrayKind, x: f64) -> Option<TypedArrayElement> {
    Some(match kind {
        TypedArrayKind::Int8 => TypedArrayElement::Int8(spec::to_int8(x)),
        TypedArrayKind::Uint8 => TypedArrayElement::Uint8(spec::to_uint8(x)),
        TypedArrayKind::Uint8Clamped => TypedArrayElement::Uint8Clamped(ClampedU8(spec::to_uint8_clamp(x))),
        TypedArrayKind::Int16 => TypedArrayElement::Int16(spec::to_int16(x)),
        TypedArrayKind::Uint16 => TypedArrayElement::Uint16(spec::to_uint16(x)),
        TypedArrayKind::Int32 => TypedArrayElement::Int32(spec::to_int32(x)),
        TypedArrayKind::Uint32 => TypedArrayElement::Uint32(spec::to_uint32(x)),
        TypedArrayKind::Float32 => TypedArrayElement::Float32(x as f32),
        TypedArrayKind::Float64 => TypedArrayElement::Float64(x),
        _ => return None, // BigInt kinds: documented panic; Float16: conversion in an external crate, not modelled
    })
}

/// Bitwise equality of elements (floats by bits, so NaN payloads and -0 count).
pub(crate) fn same_element(a: TypedArrayElement, b: TypedArrayElement) -> bool {
    std::mem::discriminant(&a) == std::mem::discriminant(&b) && a.to_bits() == b.to_bits()
}

/// Sign-/zero-extension of an element to 64 bits as the atomics code expects.
pub(crate) fn s_to_bits(e: TypedArrayElement) -> u64 {
    match e {
        TypedArrayElement::Int8(n) => n as i64 as u64,
        TypedArrayElement::Uint8(n) => u64::from(n),
        TypedArrayElement::Uint8Clamped(n) => u64::from(n.0),
        TypedArrayElement::Int16(n) => n as i64 as u64,
        TypedArrayElement::Uint16(n) => u64::from(n),
        TypedArrayElement::Int32(n) => n as i64 as u64,
        TypedArrayElement::Uint32(n) => u64::from(n),
        TypedArrayElement::BigInt64(n) => n as u64,
        TypedArrayElement::BigUint64(n) => n,
        #[cfg(feature = "float16")]
        TypedArrayElement::Float16(n) => u64::from(n.0.to_bits()),
        TypedArrayElement::Float32(n) => u64::from(n.to_bits()),
        TypedArrayElement::Float64(n) => n.to_bits(),
    }
}

fn number_kind() -> TypedArrayKind {
    let k: u8 = kani::any();
    match k % 9 {
        0 => TypedArrayKind::Int8,
        1 => TypedArrayKind::Uint8,
        2 => TypedArrayKind::Uint8Clamped,
        3 => TypedArrayKind::Int16,
        4 => TypedArrayKind::Uint16,
        5 => TypedArrayKind::Int32,
        6 => TypedArrayKind::Uint32,
        7 => TypedArrayKind::Float32,
        _ => TypedArrayKind::Float64,
    }
}

fn any_number_element() -> TypedArrayElement {
    let k: u8 = kani::any();
    match k % 9 {
        0 => TypedArrayElement::Int8(kani::any()),
        1 => TypedArrayElement::Uint8(kani::any()),
        2 => TypedArrayElement::Uint8Clamped(ClampedU8(kani::any())),
        3 => TypedArrayElement::Int16(kani::any()),
        4 => TypedArrayElement::Uint16(kani::any()),
        5 => TypedArrayElement::Int32(kani::any()),
        6 => TypedArrayElement::Uint32(kani::any()),
        7 => TypedArrayElement::Float32(kani::any()),
        _ => TypedArrayElement::Float64(kani::any()),
    }
}

// ALSO: C02
#[kani::proof_for_contract(TypedArrayKind::to_element_f64)]
fn c15_to_element_f64() {
    let kind = number_kind();
    let x: f64 = kani::any();
    kani::cover!(matches!(kind, TypedArrayKind::Int8) && x == 239.0);
    kani::cover!(matches!(kind, TypedArrayKind::Uint8Clamped) && x == 0.5);
    kani::cover!(matches!(kind, TypedArrayKind::Uint32) && x < -1.0);
    kani::cover!(matches!(kind, TypedArrayKind::Float64) && x.is_nan());
    let r = kind.to_element_f64(x);
    let Some(want) = s_to_element_f64(kind, x) else { panic!("number kind without spec") };
    assert!(same_element(r, want)); // mirror of the in-place postcondition (native replay)
}

/// The BigInt kinds hit the documented panic instead of producing an element.
// EXPECT-PANIC: cannot convert f64 to BigInt typed array element
// FN: TypedArrayKind::to_element_f64
// ALSO: C02
#[kani::proof]
#[kani::should_panic]
fn c15_to_element_f64_bigint_kinds_panic() {
    let kind = if kani::any() { TypedArrayKind::BigInt64 } else { TypedArrayKind::BigUint64 };
    let _ = kind.to_element_f64(kani::any());
    assert!(false, "RETURNED-AN-ELEMENT-FOR-A-BIGINT-KIND");
}

/// `cast` between Number kinds: converting element `e` to `target` equals storing the Number `e`
/// denotes into a `target` array (e.g. Uint8 239 -> Int8 -17, Float64 0.5 -> Uint8Clamped 0).
// FN: TypedArrayElement::cast, TypedArrayElement::as_f64, TypedArrayKind::content_type
#[kani::proof]
fn c15_element_cast_number_kinds() {
    let e = any_number_element();
    let target = number_kind();
    kani::cover!(matches!(e, TypedArrayElement::Uint8(239)) && matches!(target, TypedArrayKind::Int8));
    kani::cover!(matches!(e, TypedArrayElement::Float64(_)) && matches!(target, TypedArrayKind::Uint8Clamped));
    // the Number an element denotes
    let x: f64 = match e {
        TypedArrayElement::Int8(v) => f64::from(v),
        TypedArrayElement::Uint8(v) => f64::from(v),
        TypedArrayElement::Uint8Clamped(v) => f64::from(v.0),
        TypedArrayElement::Int16(v) => f64::from(v),
        TypedArrayElement::Uint16(v) => f64::from(v),
        TypedArrayElement::Int32(v) => f64::from(v),
        TypedArrayElement::Uint32(v) => f64::from(v),
        TypedArrayElement::Float32(v) => f64::from(v),
        TypedArrayElement::Float64(v) => v,
        _ => unreachable!(),
    };
    assert!(e.as_f64().to_bits() == x.to_bits());
    let r = e.cast(target);
    let Some(want) = s_to_element_f64(target, x) else { panic!("number kind without spec") };
    assert!(same_element(r, want));
}

// FN: TypedArrayKind::to_element_i64, TypedArrayElement::as_i64
#[kani::proof]
fn c15_to_element_i64() {
    let v: i64 = kani::any();
    kani::cover!(v < 0);
    assert!(same_element(TypedArrayKind::BigInt64.to_element_i64(v), TypedArrayElement::BigInt64(v)));
    assert!(same_element(TypedArrayKind::BigUint64.to_element_i64(v), TypedArrayElement::BigUint64(v as u64)));
    assert!(TypedArrayElement::BigInt64(v).as_i64() == v);
    assert!(TypedArrayElement::BigUint64(v as u64).as_i64() == v);
    // cast between the two BigInt kinds is the 64-bit wrap
    assert!(same_element(TypedArrayElement::BigInt64(v).cast(TypedArrayKind::BigUint64), TypedArrayElement::BigUint64(v as u64)));
}

#[kani::proof_for_contract(TypedArrayElement::to_bits)]
fn c15_element_to_bits() {
    let e = if kani::any() {
        any_number_element()
    } else if kani::any() {
        TypedArrayElement::BigInt64(kani::any())
    } else {
        TypedArrayElement::BigUint64(kani::any())
    };
    kani::cover!(matches!(e, TypedArrayElement::Int8(v) if v < 0));
    kani::cover!(matches!(e, TypedArrayElement::Float32(_)));
    assert!(e.to_bits() == s_to_bits(e));
}


/// Reading an element into a JavaScript value (the typed-array route into `JsValue`): a Number kind yields
/// a Number with exactly the element's value - every Float64 bit pattern included (NaN payloads arrive as the
/// canonical NaN, never as another type).
// ALSO: C12
// FN: <JsValue as From<TypedArrayElement>>::from
// BOTH-FEATURES: jsvalue-enum
#[kani::proof]
fn c15_element_into_jsvalue() {
    let e = any_number_element();
    kani::cover!(matches!(e, TypedArrayElement::Float64(f) if f.is_nan() && f.to_bits() >> 48 == 0xFFFC));
    kani::cover!(matches!(e, TypedArrayElement::Int8(v) if v < 0));
    let want = e.as_f64();
    let v = std::mem::ManuallyDrop::new(JsValue::from(e));
    assert!(v.is_number() && !v.is_object() && !v.is_string() && !v.is_bigint() && !v.is_symbol() && !v.is_boolean());
    let Some(n) = v.as_number() else { panic!("a typed-array element did not become a Number") };
    assert!(n.to_bits() == if want.is_nan() { 0x7FF8_0000_0000_0000 } else { want.to_bits() });
}

#[kani::proof]
fn c15_tamod_canary_must_fail() {
    let _k = number_kind();
    let _e = any_number_element();
    assert!(false, "canary");
}

#[cfg(verif_replay)]
include!("/verif/.cache/playback/ta_mod.rs");
