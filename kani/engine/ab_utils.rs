//! C15 kernel (4): raw buffer access (`SliceRef::{len,subslice,get_value}`,
//! `SliceRefMut::{len,subslice_mut,set_value}`, `memcpy`, `memmove` in
//! boa_engine::builtins::array_buffer::utils) and, through them, `Element::{read,read_mut}` and
//! `ElementRef(Mut)::{load,store}` - against a plain byte-array model.
//!
//! Pulled in by `#[cfg(kani)] #[path = "/verif/kani/engine/ab_utils.rs"] mod verif_kani;`
//! in /repo/core/engine/src/builtins/array_buffer/utils.rs.
//!
//! Model: the buffer is a byte array `b`; reading kind K at byte offset `o` yields
//! K::from_ne_bytes(b[o .. o+size]) (native order; endianness for DataView is `Element::to_*_endian`, see
//! ta_element.rs); writing stores exactly `v.to_ne_bytes()` there and changes no other byte.  Kani's pointer
//! checks on the `*buffer.as_ptr().cast()` reads/writes prove they stay inside the slice.

// ASSUME-FILE[assume]: `kani::assume` selects an in-range, element-aligned offset - the precondition the
//   (verified) `TypedArray::validate_index` establishes for the unsafe call sites.
// ASSUME-FILE[unsafe]: `get_value` / `set_value` / `memcpy` / `memmove` are `unsafe fn`s; the harness calls them
//   under exactly their documented safety precondition (aligned, enough bytes).
// ASSUME-FILE[unwind]: loops only in `memmove`/`memcpy` (bounded by the harness buffer, stated as BOUND).

use super::*;

const N: usize = 16;

#[repr(C, align(8))]
struct Aligned([u8; N]);

#[repr(C, align(8))]
struct AlignedAtomic([AtomicU8; N]);

fn any_bytes() -> Aligned {
    Aligned(kani::any())
}

fn atomic_from(b: &[u8; N]) -> AlignedAtomic {
    AlignedAtomic(std::array::from_fn(|i| AtomicU8::new(b[i])))
}

fn atomic_bytes(a: &AlignedAtomic) -> [u8; N] {
    std::array::from_fn(|i| a.0[i].load(Ordering::Relaxed))
}

fn size_of_kind(kind: TypedArrayKind) -> usize {
    match kind {
        TypedArrayKind::Int8 | TypedArrayKind::Uint8 | TypedArrayKind::Uint8Clamped => 1,
        TypedArrayKind::Int16 | TypedArrayKind::Uint16 => 2,
        #[cfg(feature = "float16")]
        TypedArrayKind::Float16 => 2,
        TypedArrayKind::Int32 | TypedArrayKind::Uint32 | TypedArrayKind::Float32 => 4,
        TypedArrayKind::BigInt64 | TypedArrayKind::BigUint64 | TypedArrayKind::Float64 => 8,
    }
}

fn any_kind() -> TypedArrayKind {
    let k: u8 = kani::any();
    match k % 12 {
        0 => TypedArrayKind::Int8,
        1 => TypedArrayKind::Uint8,
        2 => TypedArrayKind::Uint8Clamped,
        3 => TypedArrayKind::Int16,
        4 => TypedArrayKind::Uint16,
        5 => TypedArrayKind::Int32,
        6 => TypedArrayKind::Uint32,
        7 => TypedArrayKind::BigInt64,
        8 => TypedArrayKind::BigUint64,
        9 => TypedArrayKind::Float32,
        #[cfg(feature = "float16")]
        10 => TypedArrayKind::Float16,
        _ => TypedArrayKind::Float64,
    }
}

/// The model: little-endian (= native on the verified target) value of the `size` bytes at `o`,
/// zero-extended to 64 bits.
fn model_read(b: &[u8; N], o: usize, size: usize) -> u64 {
    let mut v: u64 = 0;
    let mut i = 0;
    while i < 8 {
        if i < size {
            v |= (b[o + i] as u64) << (8 * i);
        }
        i += 1;
    }
    v
}

/// The raw bits of an element, zero-extended (NOT sign-extended like `to_bits`).
fn raw_bits(e: TypedArrayElement) -> (u64, TypedArrayKind) {
    match e {
        TypedArrayElement::Int8(n) => (n as u8 as u64, TypedArrayKind::Int8),
        TypedArrayElement::Uint8(n) => (n as u64, TypedArrayKind::Uint8),
        TypedArrayElement::Uint8Clamped(n) => (n.0 as u64, TypedArrayKind::Uint8Clamped),
        TypedArrayElement::Int16(n) => (n as u16 as u64, TypedArrayKind::Int16),
        TypedArrayElement::Uint16(n) => (n as u64, TypedArrayKind::Uint16),
        TypedArrayElement::Int32(n) => (n as u32 as u64, TypedArrayKind::Int32),
        TypedArrayElement::Uint32(n) => (n as u64, TypedArrayKind::Uint32),
        TypedArrayElement::BigInt64(n) => (n as u64, TypedArrayKind::BigInt64),
        TypedArrayElement::BigUint64(n) => (n, TypedArrayKind::BigUint64),
        #[cfg(feature = "float16")]
        TypedArrayElement::Float16(n) => (n.0.to_bits() as u64, TypedArrayKind::Float16),
        TypedArrayElement::Float32(n) => (n.to_bits() as u64, TypedArrayKind::Float32),
        TypedArrayElement::Float64(n) => (n.to_bits(), TypedArrayKind::Float64),
    }
}

fn any_element() -> TypedArrayElement {
    let k: u8 = kani::any();
    match k % 12 {
        0 => TypedArrayElement::Int8(kani::any()),
        1 => TypedArrayElement::Uint8(kani::any()),
        2 => TypedArrayElement::Uint8Clamped(ClampedU8(kani::any())),
        3 => TypedArrayElement::Int16(kani::any()),
        4 => TypedArrayElement::Uint16(kani::any()),
        5 => TypedArrayElement::Int32(kani::any()),
        6 => TypedArrayElement::Uint32(kani::any()),
        7 => TypedArrayElement::BigInt64(kani::any()),
        8 => TypedArrayElement::BigUint64(kani::any()),
        9 => TypedArrayElement::Float32(kani::any()),
        #[cfg(feature = "float16")]
        10 => TypedArrayElement::Float16(crate::builtins::typed_array::Float16(float16::f16::from_bits(kani::any()))),
        _ => TypedArrayElement::Float64(kani::any()),
    }
}

/// An element-aligned offset with a whole element inside the N-byte buffer.
fn any_offset(size: usize) -> usize {
    let o: usize = kani::any();
    kani::assume(o <= N - size && o % size == 0);
    o
}

// --------------------------------------------------------------------------------- get_value

// FN: SliceRef::subslice, SliceRef::get_value, Element::read, ElementRef::load
// ALSO: C12
// ALSO: C02
#[kani::proof]
#[kani::unwind(9)]
fn c15_get_value_plain() {
    let buf = any_bytes();
    let kind = any_kind();
    let size = size_of_kind(kind);
    let o = any_offset(size);
    kani::cover!(size == 8 && o == 8);
    kani::cover!(size == 2 && o == 14);
    kani::cover!(size == 1 && o == 15);
    let whole = SliceRef::Slice(&buf.0);
    assert!(whole.len() == N);
    let sub = whole.subslice(o..);
    assert!(sub.len() == N - o);
    // ASSUME[unsafe]: aligned offset, >= size bytes (the documented precondition)
    let e = unsafe { sub.get_value(kind, Ordering::Relaxed) };
    let (bits, k) = raw_bits(e);
    assert!(std::mem::discriminant(&k) == std::mem::discriminant(&kind));
    assert!(bits == model_read(&buf.0, o, size));
}

// FN: SliceRef::subslice, SliceRef::get_value, Element::read, ElementRef::load, Element::from_plain
#[kani::proof]
#[kani::unwind(17)]
fn c15_get_value_atomic() {
    let buf = any_bytes();
    let abuf = atomic_from(&buf.0);
    let kind = any_kind();
    let size = size_of_kind(kind);
    let o = any_offset(size);
    kani::cover!(size == 8 && o == 0);
    kani::cover!(size == 4 && o == 12);
    let whole = SliceRef::AtomicSlice(&abuf.0);
    assert!(whole.len() == N);
    let sub = whole.subslice(o..);
    assert!(sub.len() == N - o);
    // ASSUME[unsafe]: aligned offset, >= size bytes
    let e = unsafe { sub.get_value(kind, Ordering::SeqCst) };
    let (bits, k) = raw_bits(e);
    assert!(std::mem::discriminant(&k) == std::mem::discriminant(&kind));
    assert!(bits == model_read(&buf.0, o, size));
}

// --------------------------------------------------------------------------------- set_value

// FN: SliceRefMut::subslice_mut, SliceRefMut::set_value, Element::read_mut, ElementRefMut::store
// ALSO: C02
#[kani::proof]
#[kani::unwind(9)]
fn c15_set_value_plain() {
    let mut buf = any_bytes();
    let old = buf.0;
    let e = any_element();
    let (bits, kind) = raw_bits(e);
    let size = size_of_kind(kind);
    let o = any_offset(size);
    kani::cover!(size == 8 && o == 8);
    kani::cover!(size == 2 && o == 6);
    {
        let mut whole = SliceRefMut::Slice(&mut buf.0);
        assert!(whole.len() == N);
        let mut sub = whole.subslice_mut(o..);
        assert!(sub.len() == N - o);
        // ASSUME[unsafe]: aligned offset, >= size bytes
        unsafe { sub.set_value(e, Ordering::Relaxed) };
    }
    // the element's bytes are there ...
    assert!(model_read(&buf.0, o, size) == bits);
    // ... and no other byte changed (symbolic witness index)
    let j: usize = kani::any();
    kani::assume(j < N);
    if j < o || j >= o + size {
        assert!(buf.0[j] == old[j]);
    }
}

// FN: SliceRefMut::subslice_mut, SliceRefMut::set_value, Element::read_mut, ElementRefMut::store, Element::to_plain
#[kani::proof]
#[kani::unwind(17)]
fn c15_set_value_atomic() {
    let buf = any_bytes();
    let abuf = atomic_from(&buf.0);
    let e = any_element();
    let (bits, kind) = raw_bits(e);
    let size = size_of_kind(kind);
    let o = any_offset(size);
    kani::cover!(size == 8 && o == 0);
    kani::cover!(size == 1 && o == 15);
    {
        let mut whole = SliceRefMut::AtomicSlice(&abuf.0);
        let mut sub = whole.subslice_mut(o..);
        assert!(sub.len() == N - o);
        // ASSUME[unsafe]: aligned offset, >= size bytes
        unsafe { sub.set_value(e, Ordering::SeqCst) };
    }
    let now = atomic_bytes(&abuf);
    assert!(model_read(&now, o, size) == bits);
    let j: usize = kani::any();
    kani::assume(j < N);
    if j < o || j >= o + size {
        assert!(now[j] == buf.0[j]);
    }
}

/// A store followed by a load of the same kind at the same place returns the stored element
/// bit for bit (NaN payloads included), plain and atomic.
// FN: SliceRefMut::set_value, SliceRef::get_value
// ALSO: C12
#[kani::proof]
#[kani::unwind(9)]
fn c15_set_then_get_roundtrip() {
    let mut buf = any_bytes();
    let e = any_element();
    let (bits, kind) = raw_bits(e);
    let size = size_of_kind(kind);
    let o = any_offset(size);
    kani::cover!(matches!(e, TypedArrayElement::Float64(f) if f.is_nan()));
    {
        let mut whole = SliceRefMut::Slice(&mut buf.0);
        // ASSUME[unsafe]: aligned offset, >= size bytes
        unsafe { whole.subslice_mut(o..).set_value(e, Ordering::Relaxed) };
    }
    let whole = SliceRef::Slice(&buf.0);
    // ASSUME[unsafe]: aligned offset, >= size bytes
    let back = unsafe { whole.subslice(o..).get_value(kind, Ordering::Relaxed) };
    assert!(raw_bits(back).0 == bits);
}

/// `subslice` never hands out a wider view: an out-of-range start panics (the `expect`).
// (the panic is `Option::expect("index out of bounds")`; Kani renders run-time formatted panic messages as the
// placeholder below, so that is the text the expected-panic filter has to match)
// EXPECT-PANIC: This is a placeholder message; Kani doesn't support message formatted at runtime
// FN: SliceRef::subslice
// ALSO: C02
#[kani::proof]
#[kani::should_panic]
fn c15_subslice_out_of_range_panics() {
    let buf = any_bytes();
    let o: usize = kani::any();
    kani::assume(o > N);
    let whole = SliceRef::Slice(&buf.0);
    let sub = whole.subslice(o..);
    assert!(sub.len() > N, "RETURNED-A-VIEW-BEYOND-THE-BUFFER");
}


// ------------------------------------------------------------------------------ memmove / memcpy

const M: usize = 24;

#[repr(C, align(8))]
struct AlignedM([u8; M]);
#[repr(C, align(8))]
struct AlignedAtomicM([AtomicU8; M]);

/// `memmove` inside one shared (atomic) buffer = the byte-array model `b[to+i] := old[from+i]`, also
/// when the ranges overlap in either direction and when the aligned 8-byte chunk path is taken;
/// nothing outside `to .. to+count` changes.
// BOUND: buffer of 24 bytes; from, to in {0, 8, 16} (8-byte aligned: the chunked path), count symbolic within the buffer
// FN: memmove, copy_shared_to_shared, copy_shared_to_shared_backwards, batched_atomic_copy_forward, batched_atomic_copy_backward, compute_batch_offsets
#[kani::proof]
#[kani::unwind(26)]
fn c15x_memmove_shared_aligned() {
    let init: [u8; M] = kani::any();
    let abuf = AlignedAtomicM(std::array::from_fn(|i| AtomicU8::new(init[i])));
    let (a, b): (u8, u8) = (kani::any(), kani::any());
    kani::assume(a < 3 && b < 3);
    let (from, to) = (8 * a as usize, 8 * b as usize);
    let count: usize = kani::any();
    kani::assume(count <= M - from && count <= M - to);
    kani::cover!(from == 0 && to == 8 && count == 16); // overlapping, two whole chunks, backwards
    kani::cover!(from == 8 && to == 0 && count == 16); // overlapping, forwards
    kani::cover!(from == 0 && to == 16 && count == 5);
    // ASSUME[unsafe]: both ranges lie inside the buffer (the documented precondition)
    unsafe { memmove(BytesMutPtr::AtomicBytes(abuf.0.as_ptr()), from, to, count) };
    let j: usize = kani::any();
    kani::assume(j < M);
    let now = abuf.0[j].load(Ordering::Relaxed);
    if j >= to && j < to + count {
        assert!(now == init[from + (j - to)]);
    } else {
        assert!(now == init[j]);
    }
}

/// Unaligned / differently aligned ranges (byte fallback and head/tail peeling), smaller buffer.
// BOUND: buffer of 24 bytes, from, to, count symbolic with count <= 9
// FN: memmove, batched_atomic_copy_forward, batched_atomic_copy_backward, compute_batch_offsets
#[kani::proof]
#[kani::unwind(26)]
fn c15x_memmove_shared_any_alignment() {
    let init: [u8; M] = kani::any();
    let abuf = AlignedAtomicM(std::array::from_fn(|i| AtomicU8::new(init[i])));
    let (from, to, count): (usize, usize, usize) = (kani::any(), kani::any(), kani::any());
    kani::assume(from <= M && to <= M && count <= 9 && count <= M - from && count <= M - to);
    kani::cover!(from == 1 && to == 3 && count == 9); // different misalignment: byte fallback
    kani::cover!(from == 3 && to == 11 && count == 9); // same misalignment: head + tail
    // ASSUME[unsafe]: both ranges lie inside the buffer
    unsafe { memmove(BytesMutPtr::AtomicBytes(abuf.0.as_ptr()), from, to, count) };
    let j: usize = kani::any();
    kani::assume(j < M);
    let now = abuf.0[j].load(Ordering::Relaxed);
    if j >= to && j < to + count {
        assert!(now == init[from + (j - to)]);
    } else {
        assert!(now == init[j]);
    }
}

/// `memmove` on a plain buffer (delegates to `ptr::copy`).
// BOUND: buffer of 24 bytes; from, to, count symbolic within it
// FN: memmove
#[kani::proof]
#[kani::unwind(26)]
fn c15_memmove_plain() {
    let init: [u8; M] = kani::any();
    let mut buf = AlignedM(init);
    let (from, to, count): (usize, usize, usize) = (kani::any(), kani::any(), kani::any());
    kani::assume(from <= M && to <= M && count <= M - from && count <= M - to);
    kani::cover!(from == 0 && to == 8 && count == 16);
    // ASSUME[unsafe]: both ranges lie inside the buffer
    unsafe { memmove(BytesMutPtr::Bytes(buf.0.as_mut_ptr()), from, to, count) };
    let j: usize = kani::any();
    kani::assume(j < M);
    if j >= to && j < to + count {
        assert!(buf.0[j] == init[from + (j - to)]);
    } else {
        assert!(buf.0[j] == init[j]);
    }
}

/// `memcpy` between a plain and a shared buffer (both directions): destination range == source range, nothing
/// else written; offsets 0 or 1 on each side cover "same misalignment" (chunked path) and "different
/// misalignment" (byte fallback).
// BOUND: buffers of 24 bytes; source and destination offsets in {0, 1}; count symbolic within the buffers
// FN: memcpy, batched_copy_bytes_to_atomic, compute_batch_offsets
#[kani::proof]
#[kani::unwind(26)]
fn c15x_memcpy_plain_to_shared() {
    let sinit: [u8; M] = kani::any();
    let dinit: [u8; M] = kani::any();
    let src = AlignedM(sinit);
    let dst = AlignedAtomicM(std::array::from_fn(|i| AtomicU8::new(dinit[i])));
    let (so, d_o): (usize, usize) = (kani::any::<bool>() as usize, kani::any::<bool>() as usize);
    let count: usize = kani::any();
    kani::assume(count <= M - 1);
    kani::cover!(so == 0 && d_o == 0 && count == 23);
    kani::cover!(so == 1 && d_o == 0 && count == 20);
    // ASSUME[unsafe]: ranges inside the buffers, buffers distinct
    unsafe {
        memcpy(BytesConstPtr::Bytes(src.0.as_ptr()).add(so), BytesMutPtr::AtomicBytes(dst.0.as_ptr()).add(d_o), count);
    }
    let j: usize = kani::any();
    kani::assume(j < M);
    let now = dst.0[j].load(Ordering::Relaxed);
    if j >= d_o && j < d_o + count {
        assert!(now == sinit[so + (j - d_o)]);
    } else {
        assert!(now == dinit[j]);
    }
}

// BOUND: buffers of 24 bytes; source and destination offsets in {0, 1}; count symbolic within the buffers
// FN: memcpy, batched_copy_atomic_to_bytes, compute_batch_offsets
#[kani::proof]
#[kani::unwind(26)]
fn c15x_memcpy_shared_to_plain() {
    let sinit: [u8; M] = kani::any();
    let dinit: [u8; M] = kani::any();
    let src = AlignedAtomicM(std::array::from_fn(|i| AtomicU8::new(sinit[i])));
    let mut dst = AlignedM(dinit);
    let (so, d_o): (usize, usize) = (kani::any::<bool>() as usize, kani::any::<bool>() as usize);
    let count: usize = kani::any();
    kani::assume(count <= M - 1);
    kani::cover!(so == 1 && d_o == 1 && count == 23);
    kani::cover!(so == 0 && d_o == 1 && count == 20);
    // ASSUME[unsafe]: ranges inside the buffers, buffers distinct
    unsafe {
        memcpy(BytesConstPtr::AtomicBytes(src.0.as_ptr()).add(so), BytesMutPtr::Bytes(dst.0.as_mut_ptr()).add(d_o), count);
    }
    let j: usize = kani::any();
    kani::assume(j < M);
    if j >= d_o && j < d_o + count {
        assert!(dst.0[j] == sinit[so + (j - d_o)]);
    } else {
        assert!(dst.0[j] == dinit[j]);
    }
}

#[kani::proof]
fn c15_utils_canary_must_fail() {
    let _ = any_offset(4);
    assert!(false, "canary");
}

#[cfg(verif_replay)]
include!("/verif/.cache/playback/ab_utils.rs");

// ----------------------------------------------------------------------- in-place contract: batch partition

/// What every batched copy loop relies on, for ALL addresses and counts (no buffer bound): the three phases
/// tile `0..count` exactly (head bytes, then `chunks` 8-byte words, then tail bytes), head and tail are shorter
/// than a word, and whenever at least one word is copied the first word starts on an 8-byte boundary - so the
/// `AtomicU64` accesses are aligned and `head + 8*chunks + tail` never leaves the `count` bytes the caller vouched for.
pub(super) fn s_batch_partition(ptr_addr: usize, count: usize, r: (usize, usize, usize)) -> bool {
    let (head, chunks, tail) = r;
    let (a, n, h, c, t) = (ptr_addr as u128, count as u128, head as u128, chunks as u128, tail as u128);
    h + 8 * c + t == n
        && h < 8
        && t < 8
        && (c == 0 || (a + h) % 8 == 0)
        // head is the distance to the next boundary, cut at count: nothing that could go in a word is peeled off bytewise
        && (h == n || (a + h) % 8 == 0)
        && (a % 8 != 0 || h == 0)
}

// ALSO: C02
// FN: compute_batch_offsets
#[kani::proof_for_contract(compute_batch_offsets)]
fn c15_batch_offsets_partition() {
    let (a, n): (usize, usize) = (kani::any(), kani::any());
    kani::cover!(a % 8 == 3 && n == 2);
    kani::cover!(a % 8 == 5 && n > 100);
    kani::cover!(a % 8 == 0 && n == 7);
    let r = compute_batch_offsets(a, n);
    assert!(s_batch_partition(a, n, r)); // mirror of the in-place postcondition (native replay)
}
