//! C13 kernel: the digit accumulation behind `parseInt` (`from_js_str_radix` and its inner `to_digit`,
//! boa_engine::builtins::number::globals).
//!
//! Pulled in by `#[cfg(kani)] #[path = "/verif/kani/engine/number_globals.rs"] mod verif_kani;`
//! in /repo/core/engine/src/builtins/number/globals.rs.
//!
//! Spec (ECMAScript 19.2.5 parseInt, step 13-14): the mathematical integer value represented by the
//! digit string in radix-R notation, letters a-z / A-Z for digits 10..35; `None` iff some code unit is
//! not a radix-R digit.

// ASSUME-FILE[assume]: `kani::assume` states the contract's precondition (radix in 2..=36 and ASCII code units -
//   what `parse_int` establishes with `char::is_digit` before the call) and the length bound.
// ASSUME-FILE[unwind]: the loops run over the input string whose length the harness bounds (stated as BOUND);
//   for the one-character harness the bound is exact (complete proof of the digit function).

use super::*;

/// Value of one ASCII code unit as a digit: independent table formulation.
pub(crate) fn s_digit(c: u16, radix: u8) -> Option<u64> {
    let d = if c >= 0x30 && c <= 0x39 {
        (c - 0x30) as u64
    } else if c >= 0x61 && c <= 0x7A {
        (c - 0x61) as u64 + 10
    } else if c >= 0x41 && c <= 0x5A {
        (c - 0x41) as u64 + 10
    } else {
        return None;
    };
    if d < radix as u64 { Some(d) } else { None }
}

pub(crate) fn pre(src: JsStr<'_>, radix: u8) -> bool {
    radix >= 2 && radix <= 36 && src.iter().all(|c| c < 128)
}

/// Exact value in u128 (no overflow for the lengths the harnesses use), then one conversion to double.
pub(crate) fn s_parse(src: JsStr<'_>, radix: u8) -> Option<f64> {
    let mut v: u128 = 0;
    for c in src.iter() {
        v = v * radix as u128 + s_digit(c, radix)? as u128;
    }
    Some(v as f64)
}

pub(crate) fn same(a: Option<f64>, b: Option<f64>) -> bool {
    a.map(f64::to_bits) == b.map(f64::to_bits)
}

/// One code unit, every ASCII byte x every radix 2..=36, Latin-1 and UTF-16 buffers: decides the inner
/// `to_digit` completely (it has no other caller).
#[kani::proof_for_contract(from_js_str_radix)]
#[kani::unwind(3)]
fn c13_parse_digit() {
    let c: u8 = kani::any();
    let radix: u8 = kani::any();
    let l = [c];
    let w = [c as u16];
    let src = if kani::any() { JsStr::latin1(&l) } else { JsStr::utf16(&w) };
    kani::assume(pre(src, radix));
    kani::cover!(radix == 36 && c == b'z');
    kani::cover!(radix == 36 && c == b'Z');
    kani::cover!(radix == 11 && c == b'a');
    kani::cover!(radix == 10 && c == b'a');
    kani::cover!(c == b'/' || c == b':' || c == b'@' || c == b'[' || c == b'`' || c == b'{');
    let r = from_js_str_radix(src, radix);
    assert!(same(r, s_parse(src, radix))); // mirror of the in-place postcondition (native replay)
    assert!(r.is_some() == s_digit(c as u16, radix).is_some());
}

/// Digit strings of length <= 3: exact positional value, `None` as soon as one unit is not a digit;
/// both code paths (u64 accumulation for radix <= 16, f64 accumulation above).
// BOUND: string length <= 3 (all ASCII units, all radices 2..=36)
#[kani::proof_for_contract(from_js_str_radix)]
#[kani::unwind(5)]
fn c13_parse_short_strings() {
    let b: [u8; 3] = kani::any();
    let n: usize = kani::any();
    kani::assume(n <= 3);
    let radix: u8 = kani::any();
    let src = JsStr::latin1(&b[..n]);
    kani::assume(pre(src, radix));
    kani::cover!(n == 3 && radix == 36 && s_parse(src, radix).is_some());
    kani::cover!(n == 3 && radix == 16 && s_parse(src, radix).is_some());
    kani::cover!(n == 2 && s_parse(src, radix).is_none());
    kani::cover!(n == 0);
    let r = from_js_str_radix(src, radix);
    assert!(same(r, s_parse(src, radix)));
}


/// Thorough tier: the same contract on strings of up to 5 code units, radix <= 16 (u64 accumulation path).
// BOUND: string length <= 5, radix 2..=16
#[kani::proof_for_contract(from_js_str_radix)]
#[kani::unwind(7)]
fn c13x_parse_strings_len5_small_radix() {
    let b: [u8; 5] = kani::any();
    let n: usize = kani::any();
    kani::assume(n <= 5);
    let radix: u8 = kani::any();
    kani::assume(radix <= 16);
    let src = JsStr::latin1(&b[..n]);
    kani::assume(pre(src, radix));
    kani::cover!(n == 5 && radix == 16 && s_parse(src, radix).is_some());
    kani::cover!(n == 5 && s_parse(src, radix).is_none());
    let r = from_js_str_radix(src, radix);
    assert!(same(r, s_parse(src, radix)));
}


// NOTE: a harness covering the WHOLE u64 accumulation path (length <= 16, radix <= 16 - the code's own guard, which
// would make it a proof rather than a bound) was run for 2 hours without a verdict (attempts/c13_full_u64_path.rs).

#[kani::proof]
#[kani::unwind(3)]
fn c13_canary_must_fail() {
    let c: u8 = kani::any();
    let l = [c];
    kani::assume(pre(JsStr::latin1(&l), 10));
    assert!(false, "canary");
}

#[cfg(verif_replay)]
include!("/verif/.cache/playback/number_globals.rs");
