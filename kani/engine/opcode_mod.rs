//! C03 kernel (2): opcode bytes and jump patching
//! (`Opcode::{encode,decode}`, `BytecodeEmitter::{patch_jump,patch_jump_table}`, boa_engine::vm::opcode).
//!
//! Pulled in by `#[cfg(kani)] #[path = "/verif/kani/engine/opcode_mod.rs"] mod verif_kani;`
//! in /repo/core/engine/src/vm/opcode/mod.rs.
//!
//! Spec: every byte is an opcode and opcode <-> byte is a bijection ("each instruction decodes");
//! `patch_jump(label, target)` makes the jump instruction at `label` decode to `target` and changes
//! nothing else ("every jump target is ... inside the same body" is the caller's choice of `target`;
//! what is decided here is that the patch writes exactly that target and corrupts no other instruction).

// ASSUME-FILE[assume]: selects in-range labels (the precondition: the label was produced by an emit of a jump
//   instruction, so label + 4 < len) and bounds the buffer length.
// ASSUME-FILE[unwind]: Vec construction / the jump-table loop over at most 2 entries.

use super::*;

/// All 256 bytes.
// FN: Opcode::decode, Opcode::encode, <Opcode as From<u8>>::from
// ALSO: C02
#[kani::proof]
fn c03_opcode_byte_bijection() {
    let b: u8 = kani::any();
    kani::cover!(b == 255);
    let op = Opcode::decode(b);
    assert!(op.encode() == b);
    let c: u8 = kani::any();
    assert!((Opcode::decode(c) == op) == (c == b));
}

const L: usize = 12;

fn emitter_with(bytes: [u8; L], len: usize) -> BytecodeEmitter {
    let mut e = BytecodeEmitter::new();
    let mut i = 0;
    while i < len {
        e.bytes.push(bytes[i]);
        i += 1;
    }
    e
}

// BOUND: bytecode buffer of at most 12 bytes (the function has no loop over the buffer)
// FN: BytecodeEmitter::patch_jump
// ALSO: C02
#[kani::proof]
#[kani::unwind(14)]
fn c03_patch_jump() {
    let init: [u8; L] = kani::any();
    let len: usize = kani::any();
    kani::assume(len <= L);
    let mut e = emitter_with(init, len);
    let label: u32 = kani::any();
    kani::assume((label as usize) + 4 < len);
    let target: u32 = kani::any();
    kani::cover!(label == 0 && len == 5);
    kani::cover!(label == 7 && len == 12);
    e.patch_jump(Address::new(label), Address::new(target));
    assert!(e.bytes.len() == len);
    // the operand of the instruction at `label` now decodes to the target ...
    let (a, pos) = <Address as Argument>::decode(&e.bytes, label as usize + 1);
    assert!(u32::from(a) == target && pos == label as usize + 5);
    // ... and no other byte changed (in particular the opcode byte at `label`)
    let j: usize = kani::any();
    kani::assume(j < len);
    if j <= label as usize || j > label as usize + 4 {
        assert!(e.bytes[j] == init[j]);
    }
}

/// A label too close to the end of the body is an index panic, not a silent out-of-bounds write.
// (any bounds panic will do: indexing says "index out of bounds", a slice copy panics with a run-time formatted
// message that Kani renders as a placeholder)
// EXPECT-PANIC-ANY: index out of bounds | This is a placeholder message; Kani doesn't support message formatted at runtime | range end index | out of range
// FN: BytecodeEmitter::patch_jump
// ALSO: C02
#[kani::proof]
#[kani::should_panic]
#[kani::unwind(14)]
fn c03_patch_jump_out_of_range_panics() {
    let init: [u8; L] = kani::any();
    let len: usize = kani::any();
    kani::assume(len <= L);
    let mut e = emitter_with(init, len);
    let label: u32 = kani::any();
    kani::assume((label as usize) + 4 >= len && label < 100);
    e.patch_jump(Address::new(label), Address::new(kani::any()));
    assert!(e.bytes.len() != len, "RETURNED-AFTER-PATCHING-OUTSIDE-THE-BODY");
}

// BOUND: jump table of exactly 2 entries, one preceding and one following byte
// FN: BytecodeEmitter::patch_jump_table
#[kani::proof]
#[kani::unwind(18)]
fn c03_patch_jump_table() {
    let mut e = BytecodeEmitter::new();
    e.bytes.push(kani::any()); // one preceding byte: the instruction does not start at 0
    // an instruction with a 2-entry table: opcode byte, u32 length, 2 x u32 placeholder
    let label = e.bytes.len() as u32;
    e.bytes.push(kani::any());
    let table: ThinVec<Address> = {
        let mut t = ThinVec::new();
        t.push(Address::new(u32::MAX));
        t.push(Address::new(u32::MAX));
        t
    };
    table.encode(&mut e.bytes);
    e.bytes.push(kani::any()); // the next instruction
    let before = e.bytes.clone();
    let (t0, t1): (u32, u32) = (kani::any(), kani::any());
    kani::cover!(true);
    e.patch_jump_table(Address::new(label), &[Address::new(t0), Address::new(t1)]);
    assert!(e.bytes.len() == before.len());
    let (decoded, _) = <ThinVec<Address> as Argument>::decode(&e.bytes, label as usize + 1);
    assert!(decoded.len() == 2 && u32::from(decoded[0]) == t0 && u32::from(decoded[1]) == t1);
    let j: usize = kani::any();
    kani::assume(j < before.len());
    let tbl = label as usize + 5;
    if j < tbl || j >= tbl + 8 {
        assert!(e.bytes[j] == before[j]); // opcode, length word, neighbours untouched
    }
}


/// Emit -> decode round trip through the REAL emitter and the REAL instruction decoder
/// (`BytecodeEmitter::emit_*`, `patch_jump`, `Bytecode::next_instruction`, `InstructionIterator`): a body made of
/// Move, JumpIfTrue (patched to the end), Call, Jump (patched to the Call) decodes to exactly these
/// instructions with these operands, every instruction starts where the previous one ended, the iterator
/// stops exactly at the end of the body, and both jump targets are starts of instructions inside it.
// BOUND: one fixed 4-instruction body shape (operands symbolic)
// FN: BytecodeEmitter::emit_move, BytecodeEmitter::emit_jump_if_true, BytecodeEmitter::emit_call, BytecodeEmitter::emit_jump, BytecodeEmitter::patch_jump, BytecodeEmitter::next_opcode_location, BytecodeEmitter::into_bytecode, Bytecode::next_instruction, InstructionIterator::next
// ALSO: C02
#[kani::proof]
#[kani::unwind(30)]
fn c03_emit_decode_roundtrip_with_jumps() {
    let (d, s, c, argc): (u32, u32, u32, u32) = (kani::any(), kani::any(), kani::any(), kani::any());
    let mut e = BytecodeEmitter::new();
    let pc0 = e.next_opcode_location();
    e.emit_move(RegisterOperand::new(d), RegisterOperand::new(s));
    let pc1 = e.next_opcode_location();
    e.emit_jump_if_true(Address::new(u32::MAX), RegisterOperand::new(c));
    let pc2 = e.next_opcode_location();
    e.emit_call(IndexOperand::from(argc));
    let pc3 = e.next_opcode_location();
    e.emit_jump(Address::new(u32::MAX));
    let end = e.next_opcode_location();
    e.patch_jump(pc1, end);
    e.patch_jump(pc3, pc2);
    kani::cover!(true);
    assert!(u32::from(pc0) == 0);
    let code = e.into_bytecode();
    assert!(code.bytes.len() == u32::from(end) as usize);
    let mut it = InstructionIterator::new(&code);
    let Some((p, op, ins)) = it.next() else { panic!("body ends early") };
    assert!(p == 0 && op == Opcode::Move);
    assert!(matches!(ins, Instruction::Move { dst, src } if u32::from(dst) == d && u32::from(src) == s));
    let Some((p, op, ins)) = it.next() else { panic!("body ends early") };
    assert!(p == u32::from(pc1) as usize && op == Opcode::JumpIfTrue);
    assert!(matches!(ins, Instruction::JumpIfTrue { address, value } if address == end && u32::from(value) == c));
    let Some((p, op, ins)) = it.next() else { panic!("body ends early") };
    assert!(p == u32::from(pc2) as usize && op == Opcode::Call);
    assert!(matches!(ins, Instruction::Call { argument_count } if u32::from(argument_count) == argc));
    let Some((p, op, ins)) = it.next() else { panic!("body ends early") };
    assert!(p == u32::from(pc3) as usize && op == Opcode::Jump);
    // the backward jump lands on the start of the Call instruction
    assert!(matches!(ins, Instruction::Jump { address } if address == pc2));
    assert!(it.next().is_none());
}

/// Same round trip for the literal-carrying and variable-length layouts: StoreInt8/16/32, StoreFloat, StoreDouble
/// (signed and floating operands, bit-exact incl. NaN payloads and -0) and a JumpTable with two targets patched by
/// `patch_jump_table`.
// BOUND: one fixed 6-instruction body shape (operands symbolic), jump table of 2 entries
// FN: BytecodeEmitter::emit_store_int8, BytecodeEmitter::emit_store_int16, BytecodeEmitter::emit_store_int32, BytecodeEmitter::emit_store_float, BytecodeEmitter::emit_store_double, BytecodeEmitter::emit_jump_table, BytecodeEmitter::patch_jump_table, Bytecode::next_instruction
#[kani::proof]
#[kani::unwind(60)]
fn c03_emit_decode_roundtrip_literals_and_table() {
    let (r, a, b, c): (u32, i8, i16, i32) = (kani::any(), kani::any(), kani::any(), kani::any());
    let (f, g): (f32, f64) = (kani::any(), kani::any());
    let idx: u32 = kani::any();
    let mut e = BytecodeEmitter::new();
    e.emit_store_int8(RegisterOperand::new(r), a);
    e.emit_store_int16(RegisterOperand::new(r), b);
    let pc2 = e.next_opcode_location();
    e.emit_store_int32(RegisterOperand::new(r), c);
    e.emit_store_float(RegisterOperand::new(r), f);
    let pc4 = e.next_opcode_location();
    e.emit_store_double(RegisterOperand::new(r), g);
    let table_pc = e.next_opcode_location();
    let mut placeholders: ThinVec<Address> = ThinVec::new();
    placeholders.push(Address::new(u32::MAX));
    placeholders.push(Address::new(u32::MAX));
    e.emit_jump_table(idx, placeholders);
    let end = e.next_opcode_location();
    // as at the call sites (jump_control.rs, generator.rs): the label is the opcode location + 4, skipping the
    // u32 `index` operand that precedes the table
    e.patch_jump_table(Address::new(u32::from(table_pc) + 4), &[pc2, pc4]);
    kani::cover!(g.is_nan() && a < 0);
    let code = e.into_bytecode();
    assert!(code.bytes.len() == u32::from(end) as usize);
    let mut it = InstructionIterator::new(&code);
    let Some((_, _, i0)) = it.next() else { panic!("early end") };
    assert!(matches!(i0, Instruction::StoreInt8 { dst, value } if u32::from(dst) == r && value == a));
    let Some((_, _, i1)) = it.next() else { panic!("early end") };
    assert!(matches!(i1, Instruction::StoreInt16 { dst, value } if u32::from(dst) == r && value == b));
    let Some((p2, _, i2)) = it.next() else { panic!("early end") };
    assert!(p2 == u32::from(pc2) as usize);
    assert!(matches!(i2, Instruction::StoreInt32 { dst, value } if u32::from(dst) == r && value == c));
    let Some((_, _, i3)) = it.next() else { panic!("early end") };
    assert!(matches!(i3, Instruction::StoreFloat { dst, value } if u32::from(dst) == r && value.to_bits() == f.to_bits()));
    let Some((p4, _, i4)) = it.next() else { panic!("early end") };
    assert!(p4 == u32::from(pc4) as usize);
    assert!(matches!(i4, Instruction::StoreDouble { dst, value } if u32::from(dst) == r && value.to_bits() == g.to_bits()));
    let Some((p5, op5, i5)) = it.next() else { panic!("early end") };
    assert!(p5 == u32::from(table_pc) as usize && op5 == Opcode::JumpTable);
    match i5 {
        Instruction::JumpTable { index, addresses } => {
            assert!(index == idx && addresses.len() == 2);
            // both table targets are starts of instructions of this body
            assert!(addresses[0] == pc2 && addresses[1] == pc4);
        }
        _ => panic!("not a jump table"),
    }
    assert!(it.next().is_none());
}

#[kani::proof]
#[kani::unwind(14)]
fn c03_opcode_canary_must_fail() {
    let init: [u8; L] = kani::any();
    let len: usize = kani::any();
    kani::assume(len <= L);
    let _e = emitter_with(init, len);
    assert!(false, "canary");
}

#[cfg(verif_replay)]
include!("/verif/.cache/playback/opcode_mod.rs");
