//! C15 kernel (2): the integer element conversions of `JsValue`
//! (`to_int8, to_uint8, to_uint8_clamp, to_int16, to_uint16, to_i32, to_u32` in boa_engine::value),
//! used by every typed-array / DataView store.
//!
//! Pulled in by `#[cfg(kani)] #[path = "/verif/kani/engine/value_conv.rs"] mod verif_kani;`
//! in /repo/core/engine/src/value/mod.rs.
//!
//! Spec: ECMAScript 7.1.6 - 7.1.12 (`crate::verif_kani::spec::to_*`): modular conversion of the
//! truncated value for EVERY double, round-half-to-even clamp for Uint8Clamped.

// ASSUME-FILE[stub]: `JsValue::to_number` is replaced by its contract on Number inputs ("a Number converts to
//   itself": the two match arms `Float64(n) => Ok(n)`, `Integer32(i) => Ok(f64::from(i))`); the stub PANICS
//   on any other input, so leaving the precondition is a failed obligation, never a vacuous pass.  The string /
//   object branches of the real `to_number` (fast-float, ToPrimitive) are outside the kernel and unverified.
// ASSUME-FILE[uninitialised]: the `&mut Context` argument is a forged, never-read allocation
//   (Box<MaybeUninit<Context>>): a `Context` cannot be built under Kani, and with `to_number` stubbed the
//   functions under contract never touch it.
// ASSUME-FILE[unsafe]: only to turn the forged allocation into `&mut Context`.
// ASSUME-FILE[drop]: operands wrapped in ManuallyDrop (see root.rs).
// ASSUME-FILE[assume]: input class selection only.

use super::*;
use crate::verif_kani::spec;
use std::mem::{ManuallyDrop, MaybeUninit};

/// Contract of `JsValue::to_number` restricted to Number inputs.
fn to_number_stub(this: &JsValue, _context: &mut Context) -> JsResult<f64> {
    if let Some(i) = this.0.as_integer32() {
        Ok(f64::from(i))
    } else if let Some(f) = this.0.as_float64() {
        Ok(f)
    } else {
        panic!("to_number stub called outside its precondition (operand is not a Number)")
    }
}

fn forged_context() -> Box<MaybeUninit<Context>> {
    Box::new(MaybeUninit::uninit())
}

/// A Number operand: any double or any int32 (symbolic choice), and its numeric value.
fn any_number() -> (ManuallyDrop<JsValue>, f64) {
    if kani::any() {
        let f: f64 = kani::any();
        (ManuallyDrop::new(JsValue::new(f)), f)
    } else {
        let i: i32 = kani::any();
        (ManuallyDrop::new(JsValue::new(i)), f64::from(i))
    }
}


// NOTE: a harness discharging the stub's contract against the REAL `JsValue::to_number` on Number operands (with only
// `to_primitive` cut) was written and measured: it does not finish in 15 min (`variant()` + the string / object arms).
// The contract of `to_number` on Numbers therefore stays ASSUMED (read off its two match arms).  attempts/to_number.rs

macro_rules! conv_harness {
    ($name:ident, $f:ident, $spec:path) => {
        // FN: JsValue::$f
        #[kani::proof]
        #[kani::stub(crate::value::JsValue::to_number, to_number_stub)]
        fn $name() {
            let (v, x) = any_number();
            let mut ctx = forged_context();
            // ASSUME[unsafe]: forged, never read (see file header)
            let ctx: &mut Context = unsafe { &mut *ctx.as_mut_ptr() };
            kani::cover!(x > 1.0e19);
            kani::cover!(x < -1.0e19);
            kani::cover!(x > 300.0 && x < 1.0e6 && x != (x as i64) as f64);
            kani::cover!(x.is_nan());
            let Ok(r) = v.$f(ctx) else { panic!("conversion of a Number failed") };
            assert!(r == $spec(x));
        }
    };
}
// ALSO: C02
conv_harness!(c15_to_int8, to_int8, spec::to_int8);
conv_harness!(c15_to_uint8, to_uint8, spec::to_uint8);
conv_harness!(c15_to_int16, to_int16, spec::to_int16);
conv_harness!(c15_to_uint16, to_uint16, spec::to_uint16);
conv_harness!(c15_to_i32, to_i32, spec::to_int32);
conv_harness!(c15_to_u32, to_u32, spec::to_uint32);

// FN: JsValue::to_uint8_clamp
// ALSO: C02
#[kani::proof]
#[kani::stub(crate::value::JsValue::to_number, to_number_stub)]
fn c15_to_uint8_clamp() {
    let (v, x) = any_number();
    let mut ctx = forged_context();
    // ASSUME[unsafe]: forged, never read (see file header)
    let ctx: &mut Context = unsafe { &mut *ctx.as_mut_ptr() };
    kani::cover!(x == 0.5);
    kani::cover!(x == 1.5);
    kani::cover!(x > 254.5 && x < 255.0);
    kani::cover!(x.is_nan());
    let Ok(r) = v.to_uint8_clamp(ctx) else { panic!("conversion of a Number failed") };
    assert!(r == spec::to_uint8_clamp(x));
}

#[kani::proof]
#[kani::stub(crate::value::JsValue::to_number, to_number_stub)]
fn c15_conv_canary_must_fail() {
    let (v, _x) = any_number();
    let mut ctx = forged_context();
    // ASSUME[unsafe]: forged, never read
    let ctx: &mut Context = unsafe { &mut *ctx.as_mut_ptr() };
    let _ = v.to_int8(ctx);
    assert!(false, "canary");
}

#[cfg(verif_replay)]
include!("/verif/.cache/playback/value_conv.rs");
