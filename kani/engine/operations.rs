//! C01 / C02 kernel: the numeric fast paths of the binary operators
//! (`JsValue::{add,sub,mul,div,rem,bitand,bitor,bitxor,shl,shr,ushr,lt,le,gt,ge,equals,not_equals}_fast`
//! in boa_engine::value::operations) - what the VM's arithmetic / comparison opcodes execute when
//! both operands are Numbers.
//!
//! Pulled in by `#[cfg(kani)] #[path = "/verif/kani/engine/operations.rs"] mod verif_kani;`
//! in /repo/core/engine/src/value/operations.rs.
//!
//! Specification (ECMAScript 6.1.6.1 Number::add/subtract/multiply/divide/remainder/leftShift/...,
//! 7.2.13 IsLessThan, 7.2.14 IsLooselyEqual on Numbers):
//!   * an operand is a Number with value num(v): the int32 or the double it stores;
//!   * the result of + - * / is the IEEE-754 result of the operation on num(a), num(b).  For two
//!     int32 operands the code may answer with an int32 `v`; then `v` must be *exactly* the
//!     mathematical result (checked in i64 arithmetic) and must not lose a negative zero;
//!     otherwise it must answer with the double computed by the IEEE operation itself;
//!   * integer operators work on ToInt32 / ToUint32 of the operands (they are int32 already);
//!   * if an operand is not a Number the fast path must decline (None).
//! `pow_fast` and the double branch of `rem_fast` are NOT under contract: `powi/powf/fmod` have no
//! bit-precise model in CBMC (listed as unverified in the evidence).

// ASSUME-FILE[assume]: `kani::assume` only selects the operand class named in the harness.
// ASSUME-FILE[drop]: operands and results are wrapped in ManuallyDrop (see root.rs: Drop of a non-pointer
//   JsValue is not tractable for CBMC); no operand holds a heap reference.
// ASSUME-FILE[unwind]: n/a

use super::*;
use crate::verif_kani::spec;
use std::mem::ManuallyDrop;

#[derive(Clone, Copy)]
pub(crate) enum V {
    Int(i32),
    Float(f64),
    Bool(bool),
    Other,
}

pub(crate) fn view(v: &JsValue) -> V {
    if let Some(i) = v.0.as_integer32() {
        V::Int(i)
    } else if let Some(f) = v.0.as_float64() {
        V::Float(f)
    } else if let Some(b) = v.0.as_bool() {
        V::Bool(b)
    } else {
        V::Other
    }
}

pub(crate) fn num(v: V) -> Option<f64> {
    match v {
        V::Int(i) => Some(f64::from(i)),
        V::Float(f) => Some(f),
        _ => None,
    }
}

fn rview(r: &Option<JsValue>) -> Option<V> {
    r.as_ref().map(view)
}

/// bits of a double as a JsValue stores it (NaN canonical)
fn canon(f: f64) -> u64 {
    if spec::bits_nan(f.to_bits()) { 0x7FF8_0000_0000_0000 } else { f.to_bits() }
}

#[derive(Clone, Copy)]
pub(crate) enum Op {
    Add,
    Sub,
    Mul,
    Div,
}

/// Postcondition of add/sub/mul/div_fast.
pub(crate) fn post_arith(op: Op, a: &JsValue, b: &JsValue, r: &Option<JsValue>) -> bool {
    match (view(a), view(b)) {
        (V::Int(x), V::Int(y)) => post_arith_int(op, x, y, r),
        (va, vb) => {
            let (Some(fa), Some(fb)) = (num(va), num(vb)) else { return r.is_none() };
            // at least one double operand: the answer is the IEEE result, stored as a double
            let ieee = match op {
                Op::Add => fa + fb,
                Op::Sub => fa - fb,
                Op::Mul => fa * fb,
                Op::Div => fa / fb,
            };
            matches!(rview(r), Some(V::Float(f)) if f.to_bits() == canon(ieee))
        }
    }
}

/// Two int32 operands: an int32 answer must be *exactly* the mathematical result and must not lose a
/// negative zero; otherwise the answer is the IEEE operation on the two integers as doubles.
pub(crate) fn post_arith_int(op: Op, x: i32, y: i32, r: &Option<JsValue>) -> bool {
    match rview(r) {
        Some(V::Float(f)) => match op {
            Op::Add => f.to_bits() == canon(f64::from(x) + f64::from(y)),
            Op::Sub => f.to_bits() == canon(f64::from(x) - f64::from(y)),
            // The double answer is taken only when needed: the product does not fit an int32 (then its
            // value is the IEEE product of the two integers - the machine operation, NOT re-verified: an
            // FP-multiplier equivalence is out of reach for SAT), or it is a zero that must be negative.
            Op::Mul => match x.checked_mul(y) {
                None => true,
                Some(p) => p == 0 && (x < 0 || y < 0) && f.to_bits() == 0x8000_0000_0000_0000,
            },
            // Likewise for `/`: a double answer only when the quotient is not an exact int32
            // (value = IEEE quotient, machine operation, not re-verified), a division by zero
            // (+-inf / NaN by the sign rules), or the negative zero.
            Op::Div => {
                if y == 0 {
                    f.to_bits()
                        == if x == 0 {
                            0x7FF8_0000_0000_0000
                        } else if x > 0 {
                            0x7FF0_0000_0000_0000
                        } else {
                            0xFFF0_0000_0000_0000
                        }
                } else if x == 0 {
                    y < 0 && f.to_bits() == 0x8000_0000_0000_0000
                } else {
                    true
                }
            }
        },
        Some(V::Int(v)) => match op {
            Op::Add => v as i64 == x as i64 + y as i64,
            Op::Sub => v as i64 == x as i64 - y as i64,
            // exact product (std's checked_mul is the trusted definition of "fits an int32");
            // a zero product with a negative factor is -0, which an int32 cannot hold
            Op::Mul => x.checked_mul(y) == Some(v) && !(v == 0 && (x < 0 || y < 0)),
            // an int32 answer must multiply back to the dividend (exact quotient), the divisor is
            // not zero, and 0 / negative is -0 which an int32 cannot hold.  (That `v` is the
            // truncated quotient, so that the 32-bit product cannot wrap, is std's `checked_div`:
            // a second divider in the spec makes the SAT problem intractable - DESIGN.md section 1.)
            Op::Div => y != 0 && y.wrapping_mul(v) == x && !(x == 0 && y < 0),
        },
        _ => false,
    }
}

/// Postcondition of rem_fast for two int32 operands (Number::remainder: truncated remainder with the
/// sign of the dividend; a zero remainder of a negative dividend is -0; x % 0 is NaN).
pub(crate) fn post_rem_int(x: i32, y: i32, r: &Option<JsValue>) -> bool {
    if y == 0 {
        return matches!(rview(r), Some(V::Float(f)) if f.to_bits() == 0x7FF8_0000_0000_0000);
    }
    // Number::remainder: r = n - d*q, q = truncate(n/d): |r| < |d|, r has the sign of the dividend, and a
    // zero remainder of a negative dividend is -0.  Stated as properties of the answer (a second
    // divider in the spec is intractable for SAT, DESIGN.md section 1); that the int32 answer is
    // congruent to x modulo y is the machine `%`, trusted.
    match rview(r) {
        Some(V::Float(f)) => f.to_bits() == 0x8000_0000_0000_0000 && x < 0,
        Some(V::Int(v)) => {
            let (v, x, y) = (v as i64, x as i64, y as i64);
            v.abs() < y.abs() && (v == 0 || (v < 0) == (x < 0)) && !(v == 0 && x < 0)
        }
        _ => false,
    }
}

/// Total postcondition of rem_fast: two int32 -> `post_rem_int`; two Numbers otherwise -> answers with
/// a Number (its value is IEEE `fmod`, outside CBMC's bit-precise model - NOT checked); else declines.
pub(crate) fn post_rem(a: &JsValue, b: &JsValue, r: &Option<JsValue>) -> bool {
    match (view(a), view(b)) {
        (V::Int(x), V::Int(y)) => post_rem_int(x, y, r),
        (va, vb) if num(va).is_some() && num(vb).is_some() => matches!(rview(r), Some(V::Float(_)) | Some(V::Int(_))),
        _ => r.is_none(),
    }
}

#[derive(Clone, Copy)]
pub(crate) enum BitOp {
    And,
    Or,
    Xor,
    Shl,
    Shr,
    Ushr,
}

/// Postcondition of the integer operators: defined on two int32 operands only.
pub(crate) fn post_bit(op: BitOp, a: &JsValue, b: &JsValue, r: &Option<JsValue>) -> bool {
    let (V::Int(x), V::Int(y)) = (view(a), view(b)) else { return r.is_none() };
    let sh = (y as u32) & 31; // shift count = ToUint32(y) modulo 32
    let want: i64 = match op {
        BitOp::And => (x & y) as i64,
        BitOp::Or => (x | y) as i64,
        BitOp::Xor => (x ^ y) as i64,
        BitOp::Shl => (((x as u32) << sh) as i32) as i64,
        BitOp::Shr => (x >> sh) as i64,
        BitOp::Ushr => ((x as u32) >> sh) as i64,
    };
    match rview(r) {
        Some(V::Int(v)) => v as i64 == want,
        Some(V::Float(f)) => want > i32::MAX as i64 && f.to_bits() == (want as f64).to_bits(),
        _ => false,
    }
}

#[derive(Clone, Copy)]
pub(crate) enum Cmp {
    Lt,
    Le,
    Gt,
    Ge,
}

/// IsLessThan-based relational operators on two Numbers (undefined, i.e. a NaN operand, is false).
pub(crate) fn post_cmp(op: Cmp, a: &JsValue, b: &JsValue, r: &Option<bool>) -> bool {
    let (Some(fa), Some(fb)) = (num(view(a)), num(view(b))) else { return r.is_none() };
    let want = match op {
        Cmp::Lt => spec::less_than(fa, fb) == Some(true),
        Cmp::Gt => spec::less_than(fb, fa) == Some(true),
        Cmp::Le => spec::less_than(fb, fa) == Some(false),
        Cmp::Ge => spec::less_than(fa, fb) == Some(false),
    };
    *r == Some(want)
}

pub(crate) fn post_eq(negate: bool, a: &JsValue, b: &JsValue, r: &Option<JsValue>) -> bool {
    let (Some(fa), Some(fb)) = (num(view(a)), num(view(b))) else { return r.is_none() };
    matches!(rview(r), Some(V::Bool(x)) if x == (spec::equal(fa, fb) != negate))
}

// ------------------------------------------------------------------------------------ generators

fn any_operand() -> ManuallyDrop<JsValue> {
    let k: u8 = kani::any();
    ManuallyDrop::new(match k % 4 {
        0 => JsValue::new(kani::any::<i32>()),
        1 => JsValue::new(kani::any::<f64>()),
        2 => JsValue::new(kani::any::<bool>()),
        _ => JsValue::undefined(),
    })
}
fn any_int() -> ManuallyDrop<JsValue> {
    ManuallyDrop::new(JsValue::new(kani::any::<i32>()))
}
fn is_int(v: &JsValue) -> bool {
    matches!(view(v), V::Int(_))
}
fn is_num(v: &JsValue) -> bool {
    num(view(v)).is_some()
}

macro_rules! arith_harness {
    ($name:ident, $f:ident, $op:expr) => {
        #[kani::proof_for_contract(JsValue::$f)]
        fn $name() {
            let a = any_operand();
            let b = any_operand();
            kani::assume(!(is_int(&a) && is_int(&b)));
            kani::cover!(is_num(&a) && is_num(&b) && !is_int(&a));
            kani::cover!(is_num(&a) && is_num(&b) && !is_int(&b));
            kani::cover!(!is_num(&b));
            let r = ManuallyDrop::new(a.$f(&b));
            assert!(post_arith($op, &a, &b, &r)); // mirror of the in-place postcondition (native replay)
        }
    };
}
macro_rules! arith_int_harness {
    ($name:ident, $f:ident, $op:expr) => {
        #[kani::proof_for_contract(JsValue::$f)]
        fn $name() {
            let a = any_int();
            let b = any_int();
            let r = ManuallyDrop::new(a.$f(&b));
            kani::cover!(matches!(rview(&r), Some(V::Int(_))));
            kani::cover!(matches!(rview(&r), Some(V::Float(_))));
            assert!(post_arith($op, &a, &b, &r));
        }
    };
}
arith_harness!(c01_add_fast, add_fast, Op::Add);
arith_harness!(c01_sub_fast, sub_fast, Op::Sub);
// ALSO: C02
arith_int_harness!(c01_add_fast_int, add_fast, Op::Add);
// ALSO: C02
arith_int_harness!(c01_sub_fast_int, sub_fast, Op::Sub);

// `*` and `/` carry no in-place contract: checking `post_arith` both inside the contract wrapper and in
// the replay mirror triples the multiplier / divider circuits and SAT does not finish (measured: > 400 s).
// Their contracts are stated in the harness (evidence form "harness-contract").

/// int32 * int32, all 2^64 pairs: exact int32 product without losing -0, or the IEEE product.
// FN: JsValue::mul_fast
// ALSO: C02
#[kani::proof]
fn c01_mul_fast_int() {
    let a = any_int();
    let b = any_int();
    let (V::Int(x), V::Int(y)) = (view(&a), view(&b)) else { panic!("not int") };
    let r = ManuallyDrop::new(a.mul_fast(&b));
    kani::cover!(matches!(rview(&r), Some(V::Int(0))) && x == 0);
    kani::cover!(matches!(rview(&r), Some(V::Float(_))) && (x == 0 || y == 0));
    kani::cover!(matches!(rview(&r), Some(V::Float(_))) && x > 100_000);
    assert!(post_arith_int(Op::Mul, x, y, &r));
}

/// int32 / int32, all 2^64 pairs - split in three harnesses (x != 0 && y != 0 | y == 0 | x == 0) so that
/// the integer divider and the FP divider never meet in one SAT problem.
// FN: JsValue::div_fast
// ALSO: C02
#[kani::proof]
fn c01x_div_fast_int_nonzero() {
    let a = any_int();
    let b = any_int();
    let (V::Int(x), V::Int(y)) = (view(&a), view(&b)) else { panic!("not int") };
    kani::assume(x != 0 && y != 0);
    let r = ManuallyDrop::new(a.div_fast(&b));
    kani::cover!(matches!(rview(&r), Some(V::Int(_))) && y < 0);
    kani::cover!(matches!(rview(&r), Some(V::Float(_))));
    kani::cover!(x == i32::MIN && y == -1);
    assert!(post_arith_int(Op::Div, x, y, &r));
}

/// Quick-tier stand-in for c01x_div_fast_int_nonzero (which needs SAT to relate CBMC's divider to the code's
/// `y * div` overflow check and takes > 400 s): divisor restricted to 8 bits, dividend unrestricted.
// BOUND: non-zero divisor with |y| <= 127 (8-bit), dividend any non-zero int32
// FN: JsValue::div_fast
// ALSO: C02
#[kani::proof]
fn c01_div_fast_int_nonzero_small_divisor() {
    let a = any_int();
    let b = any_int();
    let (V::Int(x), V::Int(y)) = (view(&a), view(&b)) else { panic!("not int") };
    kani::assume(x != 0 && y != 0 && y >= -127 && y <= 127);
    let r = ManuallyDrop::new(a.div_fast(&b));
    kani::cover!(matches!(rview(&r), Some(V::Int(_))) && y < 0);
    kani::cover!(matches!(rview(&r), Some(V::Float(_))));
    assert!(post_arith_int(Op::Div, x, y, &r));
}

// FN: JsValue::div_fast
// ALSO: C02
#[kani::proof]
fn c01_div_fast_int_by_zero() {
    let a = any_int();
    let b = ManuallyDrop::new(JsValue::new(0i32));
    let V::Int(x) = view(&a) else { panic!("not int") };
    let r = ManuallyDrop::new(a.div_fast(&b));
    kani::cover!(x < 0);
    kani::cover!(x == 0);
    assert!(post_arith_int(Op::Div, x, 0, &r));
}

// FN: JsValue::div_fast
// ALSO: C02
#[kani::proof]
fn c01_div_fast_int_zero_dividend() {
    let a = ManuallyDrop::new(JsValue::new(0i32));
    let b = any_int();
    let V::Int(y) = view(&b) else { panic!("not int") };
    let r = ManuallyDrop::new(a.div_fast(&b));
    kani::cover!(y < 0);
    kani::cover!(y > 0);
    assert!(post_arith_int(Op::Div, 0, y, &r));
}

/// `*` / `/` with a double operand: declines iff an operand is not a Number, else answers with a double.
// FN: JsValue::mul_fast, JsValue::div_fast
#[kani::proof]
fn c01_mul_div_fast_declines() {
    let a = any_operand();
    let b = any_operand();
    kani::assume(!(is_int(&a) && is_int(&b)));
    kani::cover!(is_num(&a) && is_num(&b));
    kani::cover!(!is_num(&a));
    let r = ManuallyDrop::new(a.mul_fast(&b));
    let q = ManuallyDrop::new(a.div_fast(&b));
    if is_num(&a) && is_num(&b) {
        assert!(matches!(rview(&r), Some(V::Float(_))) && matches!(rview(&q), Some(V::Float(_))));
    } else {
        assert!(r.is_none() && q.is_none());
    }
}

fn special(k: u8) -> f64 {
    match k % 12 {
        0 => f64::NAN,
        1 => 0.0,
        2 => -0.0,
        3 => f64::INFINITY,
        4 => f64::NEG_INFINITY,
        5 => 1.0,
        6 => -1.0,
        7 => 2.0,
        8 => -2.0,
        9 => 0.5,
        10 => 3.0,
        _ => 10.0,
    }
}

/// `*` on doubles = IEEE multiplication.  An FP multiplier equivalence over two fully symbolic doubles
/// is out of reach for SAT (measured), so one operand ranges over 12 special values
/// (NaN, +-0, +-inf, +-1, +-2, 0.5, 3, 10) and the other over all doubles / int32s, both orders.
// BOUND: one operand of the pair in {NaN,+0,-0,+inf,-inf,1,-1,2,-2,0.5,3,10}; the other operand unrestricted (any double or int32)
// FN: JsValue::mul_fast
#[kani::proof]
fn c01_mul_fast_special() {
    let s = ManuallyDrop::new(JsValue::new(special(kani::any())));
    let o = any_operand();
    kani::assume(is_num(&o));
    let (a, b) = if kani::any() { (&s, &o) } else { (&o, &s) };
    kani::cover!(is_int(&o));
    kani::cover!(!is_int(&o));
    let r = ManuallyDrop::new(a.mul_fast(b));
    assert!(post_arith(Op::Mul, a, b, &r));
}

// BOUND: one operand of the pair in {NaN,+0,-0,+inf,-inf}; the other operand unrestricted (any double or int32)
// FN: JsValue::div_fast
#[kani::proof]
fn c01_div_fast_special() {
    let s = ManuallyDrop::new(JsValue::new(special(kani::any::<u8>() % 5)));
    let o = any_operand();
    kani::assume(is_num(&o));
    let (a, b) = if kani::any() { (&s, &o) } else { (&o, &s) };
    kani::cover!(is_int(&o));
    kani::cover!(!is_int(&o));
    let r = ManuallyDrop::new(a.div_fast(b));
    assert!(post_arith(Op::Div, a, b, &r));
}

/// `%` on two int32 operands, all 2^64 pairs - including i32::MIN % -1 and x % 0.
// ALSO: C02
#[kani::proof_for_contract(JsValue::rem_fast)]
fn c01_rem_fast_int() {
    let (x, y): (i32, i32) = (kani::any(), kani::any());
    let a = ManuallyDrop::new(JsValue::new(x));
    let b = ManuallyDrop::new(JsValue::new(y));
    kani::cover!(y == 0);
    kani::cover!(x == i32::MIN && y == -1);
    kani::cover!(x < 0 && y != 0 && (x as i64) % (y as i64) == 0);
    kani::cover!(x > 0 && y < 0 && (x as i64) % (y as i64) != 0);
    let r = ManuallyDrop::new(a.rem_fast(&b));
    assert!(post_rem(&a, &b, &r));
}

/// `%` with at least one non-int32 operand: declines iff an operand is not a Number.
#[kani::proof_for_contract(JsValue::rem_fast)]
fn c01_rem_fast_other() {
    let a = any_operand();
    let b = any_operand();
    kani::assume(!(is_int(&a) && is_int(&b)));
    kani::cover!(is_num(&a) && is_num(&b));
    kani::cover!(!is_num(&a));
    let r = ManuallyDrop::new(a.rem_fast(&b));
    assert!(post_rem(&a, &b, &r));
}

macro_rules! bit_harness {
    ($name:ident, $f:ident, $op:expr) => {
        #[kani::proof_for_contract(JsValue::$f)]
        fn $name() {
            let a = any_operand();
            let b = any_operand();
            kani::cover!(is_int(&a) && is_int(&b));
            kani::cover!(is_int(&a) && !is_int(&b));
            let r = ManuallyDrop::new(a.$f(&b));
            assert!(post_bit($op, &a, &b, &r));
        }
    };
}
bit_harness!(c01_bitand_fast, bitand_fast, BitOp::And);
bit_harness!(c01_bitor_fast, bitor_fast, BitOp::Or);
bit_harness!(c01_bitxor_fast, bitxor_fast, BitOp::Xor);
// ALSO: C02
bit_harness!(c01_shl_fast, shl_fast, BitOp::Shl);
bit_harness!(c01_shr_fast, shr_fast, BitOp::Shr);
bit_harness!(c01_ushr_fast, ushr_fast, BitOp::Ushr);

macro_rules! cmp_harness {
    ($name:ident, $f:ident, $op:expr) => {
        #[kani::proof_for_contract(JsValue::$f)]
        fn $name() {
            let a = any_operand();
            let b = any_operand();
            kani::cover!(is_int(&a) && is_int(&b));
            kani::cover!(is_num(&a) && is_num(&b) && !is_int(&b));
            kani::cover!(!is_num(&a));
            let r = a.$f(&b);
            assert!(post_cmp($op, &a, &b, &r));
        }
    };
}
cmp_harness!(c01_lt_fast, lt_fast, Cmp::Lt);
cmp_harness!(c01_le_fast, le_fast, Cmp::Le);
cmp_harness!(c01_gt_fast, gt_fast, Cmp::Gt);
cmp_harness!(c01_ge_fast, ge_fast, Cmp::Ge);

#[kani::proof_for_contract(JsValue::equals_fast)]
fn c01_equals_fast() {
    let a = any_operand();
    let b = any_operand();
    kani::cover!(is_num(&a) && is_num(&b) && !is_int(&a));
    kani::cover!(!is_num(&b));
    let r = ManuallyDrop::new(a.equals_fast(&b));
    assert!(post_eq(false, &a, &b, &r));
}

#[kani::proof_for_contract(JsValue::not_equals_fast)]
fn c01_not_equals_fast() {
    let a = any_operand();
    let b = any_operand();
    kani::cover!(is_num(&a) && is_num(&b) && !is_int(&a));
    kani::cover!(!is_num(&b));
    let r = ManuallyDrop::new(a.not_equals_fast(&b));
    assert!(post_eq(true, &a, &b, &r));
}

#[kani::proof]
fn c01_ops_canary_must_fail() {
    let a = any_operand();
    let b = any_int();
    kani::assume(is_num(&a));
    assert!(false, "canary");
}


#[cfg(verif_replay)]
include!("/verif/.cache/playback/operations.rs");

