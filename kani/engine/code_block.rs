//! C03 kernel (3): the protected range of an exception handler (`Handler::contains`,
//! boa_engine::vm::code_block).
//!
//! Pulled in by `#[cfg(kani)] #[path = "/verif/kani/engine/code_block.rs"] mod verif_kani;`
//! in /repo/core/engine/src/vm/code_block.rs.

// ASSUME-FILE[assume]: none.

use super::*;

#[kani::proof_for_contract(Handler::contains)]
fn c03_handler_contains() {
    let h = Handler { start: Address::new(kani::any()), end: Address::new(kani::any()), environment_count: kani::any() };
    let pc: u32 = kani::any();
    kani::cover!(pc == h.start.as_u32() && pc < h.end.as_u32());
    kani::cover!(pc == h.end.as_u32());
    let r = h.contains(pc);
    // half-open range [start, end): the handler's own landing pc (`end`) is not protected by it
    assert!(r == (h.start.as_u32() <= pc && pc < h.end.as_u32()));
    assert!(h.handler().as_u32() == h.end.as_u32());
}

#[cfg(verif_replay)]
include!("/verif/.cache/playback/code_block.rs");
