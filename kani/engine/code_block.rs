//! C03 kernel (3): the protected range of an exception handler (`Handler::contains`,
//! boa_engine::vm::code_block).
//!
//! Pulled in by `#[cfg(kani)] #[path = "/verif/kani/engine/code_block.rs"] mod verif_kani;`
//! in /repo/core/engine/src/vm/code_block.rs.

// ASSUME-FILE[assume]: bounds the number of handlers (BOUND).
// ASSUME-FILE[unwind]: loops over at most 3 handlers.
// ASSUME-FILE[drop]: the `CodeBlock` is forgotten (its drop glue reaches `Gc` constants).

use super::*;

#[kani::proof_for_contract(Handler::contains)]
fn c03_handler_contains() {
    let h = Handler { start: Address::new(kani::any()), end: Address::new(kani::any()), environment_count: kani::any() };
    let pc: u32 = kani::any();
    kani::cover!(pc == h.start.as_u32() && pc < h.end.as_u32());
    kani::cover!(pc == h.end.as_u32());
    let r = h.contains(pc);
    // half-open range [start, end): the handler's own landing pc (`end`) is not protected by it
    assert!(r == (h.start.as_u32() <= pc && pc < h.end.as_u32()));
    assert!(h.handler().as_u32() == h.end.as_u32());
}


/// Handler lookup: the LAST handler of the table whose range contains pc wins (handlers of nested `try`
/// blocks are pushed outermost first, so the innermost protecting handler must be chosen); None iff no
/// range contains pc.
// BOUND: exception tables of at most 3 handlers (ranges and pc symbolic)
// FN: CodeBlock::find_handler, Handler::contains
#[kani::proof]
#[kani::unwind(6)]
fn c03_find_handler_picks_innermost() {
    let mut cb = CodeBlock::new(boa_string::StaticJsStrings::EMPTY_STRING, 0, false);
    let n: usize = kani::any();
    kani::assume(n <= 3);
    let hs: [(u32, u32); 3] = kani::any();
    let mut i = 0;
    while i < n {
        cb.handlers.push(Handler { start: Address::new(hs[i].0), end: Address::new(hs[i].1), environment_count: i as u32 });
        i += 1;
    }
    let pc: u32 = kani::any();
    let inside = |k: usize| k < n && hs[k].0 <= pc && pc < hs[k].1;
    kani::cover!(inside(0) && inside(2) && !inside(1));
    kani::cover!(n == 3 && !inside(0) && !inside(1) && !inside(2));
    let want = if inside(2) {
        Some(2)
    } else if inside(1) {
        Some(1)
    } else if inside(0) {
        Some(0)
    } else {
        None
    };
    match cb.find_handler(pc) {
        Some((idx, h)) => {
            assert!(want == Some(idx));
            assert!(h.environment_count == idx as u32 && h.start.as_u32() == hs[idx].0);
        }
        None => assert!(want.is_none()),
    }
    std::mem::forget(cb);
}

#[cfg(verif_replay)]
include!("/verif/.cache/playback/code_block.rs");
