//! C09 kernel: contracts and proof harnesses for the real `boa_gc::internals::gc_header::GcHeader`.
//!
//! Pulled into /repo/core/gc/src/internals/gc_header.rs by
//! `#[cfg(kani)] #[path = "/verif/kani/gc/gc_header.rs"] mod verif_kani;`
//! (child module => sees the private fields and constants of its parent).
//!
//! Abstract view of a header: (refs, non_roots, marked).
//! Representation invariant  I(h) := refs <= NON_ROOTS_MAX  &&  non_roots <= refs.
//! The spec functions below are written from the property statement ("rootedness is inferred by
//! counting handles found inside the heap against the handle count"), not from the method bodies.

// ASSUME-FILE[assume]: every `kani::assume` in this file restricts a symbolic header to the representation
//   invariant I(h) (established by `new`, proved preserved by every method below) or selects a case split.

use super::*;

/// The abstract view.
#[derive(Clone, Copy, PartialEq, Eq)]
pub(crate) struct View {
    pub(crate) refs: u32,
    pub(crate) non_roots: u32,
    pub(crate) marked: bool,
}

pub(crate) const MAX: u32 = 0x7FFF_FFFF; // independent literal; proved equal to NON_ROOTS_MAX below

pub(crate) fn view(h: &GcHeader) -> View {
    // Reads the raw cells directly, not through the accessors under contract.
    let raw = h.non_root_count.get();
    View {
        refs: h.ref_count.get(),
        non_roots: raw & 0x7FFF_FFFF,
        marked: (raw >> 31) == 1,
    }
}

pub(crate) fn inv(v: View) -> bool {
    v.refs <= MAX && v.non_roots <= v.refs
}

// ---- postconditions, phrased over the view (taken from the property, not from the bodies) -------

/// `inc_non_root_count`: one more handle was found inside the heap; the count saturates at the
/// number of handles (it can never exceed it), mark bit and handle count untouched.
pub(crate) fn post_inc_non_root_count(o: View, n: View) -> bool {
    n.refs == o.refs
        && n.marked == o.marked
        && n.non_roots == if o.non_roots < o.refs { o.non_roots + 1 } else { o.refs }
}

pub(crate) fn post_reset_non_root_count(o: View, n: View) -> bool {
    n == View { non_roots: 0, ..o }
}

/// A *returning* `inc_ref_count` started strictly below the cap and added exactly one handle.
pub(crate) fn post_inc_ref_count(o: View, n: View) -> bool {
    o.refs < MAX && n == View { refs: o.refs + 1, ..o }
}

/// A handle can be dropped between collections only while some handle is outside the heap count.
pub(crate) fn pre_dec_ref_count(v: View) -> bool {
    inv(v) && v.refs > v.non_roots
}

pub(crate) fn post_dec_ref_count(o: View, n: View) -> bool {
    o.refs > 0 && n == View { refs: o.refs - 1, ..o }
}

pub(crate) fn post_set_mark(o: View, n: View, m: bool) -> bool {
    n == View { marked: m, ..o }
}

/// Rooted <=> some handle was not found inside the heap.
pub(crate) fn spec_is_rooted(v: View) -> bool {
    v.non_roots < v.refs
}

/// Any header satisfying the invariant (both raw words symbolic).
fn any_header() -> GcHeader {
    let h = GcHeader {
        ref_count: Cell::new(kani::any()),
        non_root_count: Cell::new(kani::any()),
    };
    kani::assume(inv(view(&h)));
    h
}

/// Any header at all (invariant NOT assumed) - for the observers whose contracts need none.
fn any_raw_header() -> GcHeader {
    GcHeader {
        ref_count: Cell::new(kani::any()),
        non_root_count: Cell::new(kani::any()),
    }
}

#[kani::proof]
fn c09_constants() {
    kani::cover!(true);
    assert!(NON_ROOTS_MAX == MAX);
    assert!(MARK_MASK == 0x8000_0000);
    assert!(NON_ROOTS_MASK == 0x7FFF_FFFF);
    assert!(MARK_MASK & NON_ROOTS_MASK == 0);
    assert!(MARK_MASK | NON_ROOTS_MASK == u32::MAX);
}

#[kani::proof]
fn c09_new_establishes_invariant() {
    kani::cover!(true);
    let h = GcHeader::new();
    let v = view(&h);
    assert!(inv(v));
    assert!(v.refs == 1 && v.non_roots == 0 && !v.marked);
    // a fresh allocation is rooted (its only handle is outside the heap)
    assert!(h.is_rooted());
}

#[kani::proof_for_contract(GcHeader::ref_count)]
fn c09_ref_count() {
    let h = any_raw_header();
    kani::cover!(true);
    let r = h.ref_count();
    assert!(r == view(&h).refs); // mirror of the in-place postcondition (checked natively on replay)
}

#[kani::proof_for_contract(GcHeader::non_root_count)]
fn c09_non_root_count() {
    let h = any_raw_header();
    kani::cover!(true);
    let r = h.non_root_count();
    assert!(r == view(&h).non_roots && r <= MAX); // mirror
}

#[kani::proof_for_contract(GcHeader::is_marked)]
fn c09_is_marked() {
    let h = any_raw_header();
    kani::cover!(true);
    let r = h.is_marked();
    assert!(r == view(&h).marked); // mirror
}

#[kani::proof_for_contract(GcHeader::is_rooted)]
fn c09_is_rooted() {
    let h = any_raw_header();
    kani::cover!(true);
    let r = h.is_rooted();
    assert!(r == spec_is_rooted(view(&h))); // mirror
}

#[kani::proof_for_contract(GcHeader::inc_non_root_count)]
fn c09_inc_non_root_count() {
    let h = any_header();
    kani::cover!(view(&h).non_roots < view(&h).refs);
    kani::cover!(view(&h).non_roots == view(&h).refs);
    kani::cover!(view(&h).marked);
    let o = view(&h);
    h.inc_non_root_count();
    assert!(inv(view(&h)) && post_inc_non_root_count(o, view(&h))); // mirror
}

#[kani::proof_for_contract(GcHeader::reset_non_root_count)]
fn c09_reset_non_root_count() {
    let h = any_header();
    kani::cover!(view(&h).marked && view(&h).non_roots > 0);
    let o = view(&h);
    h.reset_non_root_count();
    assert!(post_reset_non_root_count(o, view(&h))); // mirror
}

/// `inc_ref_count` panics exactly when the result would exceed NON_ROOTS_MAX (documented,
/// deliberate).  The contract's precondition is only I(h); its postcondition says a *returning*
/// call started below the cap.  So over all of I(h) the only failing check must be the documented
/// panic (`returns => refs < MAX`), and c09_inc_ref_count_below_cap shows `refs < MAX => no panic`.
// EXPECT-PANIC: too many references to a gc allocation
// ALSO: C02
#[kani::proof_for_contract(GcHeader::inc_ref_count)]
#[kani::should_panic]
fn c09_inc_ref_count() {
    let h = any_header();
    kani::cover!(view(&h).refs == MAX - 1);
    kani::cover!(view(&h).refs == MAX);
    let o = view(&h);
    h.inc_ref_count();
    assert!(inv(view(&h)) && post_inc_ref_count(o, view(&h))); // mirror
}

// FN: GcHeader::inc_ref_count
// ALSO: C02
#[kani::proof]
fn c09_inc_ref_count_below_cap() {
    let h = any_header();
    kani::assume(view(&h).refs < MAX);
    let before = view(&h);
    kani::cover!(before.refs == MAX - 1 && before.marked);
    h.inc_ref_count();
    assert!(view(&h).refs == before.refs + 1);
    assert!(view(&h).refs <= MAX);
}

// ALSO: C02
#[kani::proof_for_contract(GcHeader::dec_ref_count)]
fn c09_dec_ref_count() {
    let h = any_raw_header();
    kani::assume(pre_dec_ref_count(view(&h)));
    kani::cover!(view(&h).refs == 1 && view(&h).non_roots == 0);
    kani::cover!(view(&h).marked);
    let o = view(&h);
    h.dec_ref_count();
    assert!(inv(view(&h)) && post_dec_ref_count(o, view(&h))); // mirror
}

#[kani::proof_for_contract(GcHeader::mark)]
fn c09_mark() {
    let h = any_header();
    kani::cover!(!view(&h).marked && view(&h).non_roots == MAX);
    let o = view(&h);
    h.mark();
    assert!(post_set_mark(o, view(&h), true)); // mirror
}

#[kani::proof_for_contract(GcHeader::unmark)]
fn c09_unmark() {
    let h = any_header();
    kani::cover!(view(&h).marked && view(&h).non_roots == MAX);
    let o = view(&h);
    h.unmark();
    assert!(post_set_mark(o, view(&h), false)); // mirror
}

/// Root inference, stated on the counting discipline as the collector uses it
/// (`trace_non_roots` calls `inc_non_root_count` once per handle found inside the heap, then
/// `is_rooted` is consulted).  Claim: after `reset_non_root_count` and k calls of
/// `inc_non_root_count`, non_roots == min(k, refs), hence `is_rooted() <=> k < refs` ("some handle
/// is outside the heap").  Proved by induction on k: base case + step, both loop-free over fully
/// symbolic (refs, k) - so for every k, not a bounded unrolling.
// FN: GcHeader::reset_non_root_count, GcHeader::is_rooted
#[kani::proof]
fn c09_root_inference_base() {
    let h = any_header();
    let before = view(&h);
    h.reset_non_root_count();
    kani::cover!(before.non_roots > 0 && before.marked);
    assert!(view(&h).non_roots == 0); // == min(0, refs)
    assert!(inv(view(&h)));
    // zero handles found in the heap: rooted iff there is any handle at all
    assert!(h.is_rooted() == (before.refs > 0));
}

// FN: GcHeader::inc_non_root_count, GcHeader::is_rooted
#[kani::proof]
fn c09_root_inference_step() {
    let h = any_header();
    let k: u32 = kani::any(); // handles found so far
    let refs = view(&h).refs;
    let marked = view(&h).marked;
    kani::assume(k < u32::MAX);
    // induction hypothesis: non_roots == min(k, refs)
    kani::assume(view(&h).non_roots == if k < refs { k } else { refs });
    kani::cover!(k < refs);
    kani::cover!(k == refs);
    kani::cover!(k > refs);
    h.inc_non_root_count();
    let k1 = k + 1;
    assert!(view(&h).non_roots == if k1 < refs { k1 } else { refs });
    assert!(h.is_rooted() == (k1 < refs));
    assert!(view(&h).marked == marked && view(&h).refs == refs);
    assert!(inv(view(&h)));
}

/// Canary: the same precondition followed by `assert!(false)` must FAIL - guards against a
/// vacuous `any_header()`.
#[kani::proof]
fn c09_canary_must_fail() {
    let _h = any_header();
    assert!(false, "canary");
}

#[cfg(verif_replay)]
include!("/verif/.cache/playback/gc_header.rs");
