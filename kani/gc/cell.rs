//! C09 kernel (2): the borrow state of `GcRefCell` and how it gates tracing
//! (`BorrowFlag::{borrowed,set_writing,add_reading,sub_reading}`, `GcRefCell::{try_borrow,try_borrow_mut}`,
//! the guards' `Drop`, and `impl Trace for GcRefCell`, boa_gc::cell).
//!
//! Pulled in by `#[cfg(kani)] #[path = "/verif/kani/gc/cell.rs"] mod verif_kani;`
//! in /repo/core/gc/src/cell.rs.
//!
//! Spec (from the property: "an object is never freed while reachable"; root inference counts the handles
//! found *inside* the heap (`trace_non_roots`) and marks from the roots (`trace`)): for one cell and one
//! collection the two traversals must agree - a child that is counted as "found inside the heap" through a
//! cell must also be reachable by the marker through that cell, in EVERY borrow state.  Otherwise the child
//! looks unrooted and unreachable at once and is freed while the cell still owns it.
//! Borrow discipline: shared borrows count up and down, a mutable borrow exists only from Unused and
//! excludes every other borrow, guards restore the state they found.

// ASSUME-FILE[assume]: selects the borrow state (reader count below the overflow point where stated).
// ASSUME-FILE[unsafe]: `Trace` is an unsafe trait: the harness implements it for `Probe`, a type without pointers whose
//   methods only count calls, and calls the unsafe `trace`/`trace_non_roots` of the real `GcRefCell` on it; the cell's
//   content is read through `UnsafeCell::get` while no guard is alive.
// ASSUME-FILE[drop]: the (empty) `Tracer` is forgotten - its queue type's drop glue is irrelevant to the contract.

use super::*;
use std::cell::Cell as StdCell;

/// A traceable value that records which traversal visited it.
struct Probe {
    traced: StdCell<u32>,
    counted: StdCell<u32>,
    finalized: StdCell<u32>,
}

impl Finalize for Probe {
    fn finalize(&self) {
        self.finalized.set(self.finalized.get() + 1);
    }
}

// SAFETY (harness type): holds no Gc pointers; the methods only record that they were called.
unsafe impl Trace for Probe {
    unsafe fn trace(&self, _tracer: &mut Tracer) {
        self.traced.set(self.traced.get() + 1);
    }
    unsafe fn trace_non_roots(&self) {
        self.counted.set(self.counted.get() + 1);
    }
    fn run_finalizer(&self) {
        Finalize::finalize(self);
    }
}

fn probe_cell(flag: usize) -> GcRefCell<Probe> {
    let c = GcRefCell::new(Probe { traced: StdCell::new(0), counted: StdCell::new(0), finalized: StdCell::new(0) });
    c.borrow.set(BorrowFlag(flag));
    c
}

fn state_of(flag: usize) -> BorrowState {
    // independent classification: all ones = writing, zero = unused, else n readers
    if flag == usize::MAX {
        BorrowState::Writing
    } else if flag == 0 {
        BorrowState::Unused
    } else {
        BorrowState::Reading
    }
}

/// BorrowFlag algebra, every flag word.
// FN: BorrowFlag::borrowed, BorrowFlag::set_writing, BorrowFlag::add_reading, BorrowFlag::sub_reading
#[kani::proof]
fn c09_borrow_flag_algebra() {
    let w: usize = kani::any();
    let f = BorrowFlag(w);
    kani::cover!(w == usize::MAX);
    kani::cover!(w == 1);
    assert!(f.borrowed() == state_of(w));
    assert!(f.set_writing().borrowed() == BorrowState::Writing);
    assert!(BORROWFLAG_INIT.borrowed() == BorrowState::Unused);
    if w < usize::MAX - 1 {
        // one more reader: still Reading, and undone exactly by sub_reading
        let g = f.add_reading();
        assert!(g.0 == w + 1 && g.borrowed() == BorrowState::Reading);
        assert!(g.sub_reading().0 == w);
    }
}

/// Counting one reader too many would turn the flag into WRITING: the code must refuse (assert).
// EXPECT-PANIC: assertion failed: flags.borrowed() == BorrowState::Reading
// FN: BorrowFlag::add_reading
#[kani::proof]
#[kani::should_panic]
fn c09_borrow_flag_reader_overflow_panics() {
    let g = BorrowFlag(usize::MAX - 1).add_reading();
    assert!(g.0 != usize::MAX, "RETURNED-A-WRITING-FLAG-FROM-ADD-READING");
}

/// The traversals agree in every borrow state: a child is counted as non-root through this cell iff the
/// marker reaches it through this cell; both skip exactly when the cell is mutably borrowed.
// FN: <GcRefCell<T> as Trace>::trace, <GcRefCell<T> as Trace>::trace_non_roots, <GcRefCell<T> as Trace>::run_finalizer
#[kani::proof]
fn c09_cell_trace_and_non_root_count_agree() {
    let w: usize = kani::any();
    let c = probe_cell(w);
    kani::cover!(state_of(w) == BorrowState::Writing);
    kani::cover!(state_of(w) == BorrowState::Reading);
    kani::cover!(state_of(w) == BorrowState::Unused);
    let mut tracer = Tracer::new();
    // SAFETY: Probe holds no pointers
    unsafe {
        c.trace(&mut tracer);
        c.trace_non_roots();
    }
    c.run_finalizer();
    // SAFETY: no outstanding borrow guard exists in the harness
    let p = unsafe { &*c.cell.get() };
    assert!(p.traced.get() == p.counted.get());
    let visited = state_of(w) != BorrowState::Writing;
    assert!(p.traced.get() == visited as u32);
    assert!(p.finalized.get() == visited as u32);
    assert!(c.borrow.get().0 == w); // tracing does not change the borrow state
    std::mem::forget(tracer);
}

/// try_borrow / try_borrow_mut and their guards, from every borrow state.
// FN: GcRefCell::try_borrow, GcRefCell::try_borrow_mut, <BorrowGcRef as Drop>::drop, <BorrowGcRefMut as Drop>::drop, <BorrowGcRef as Clone>::clone
#[kani::proof]
fn c09_cell_borrow_discipline() {
    let w: usize = kani::any();
    // two more readers must fit below the WRITING pattern (reader overflow is refused by an assert, see
    // c09_borrow_flag_reader_overflow_panics)
    kani::assume(w == usize::MAX || w < usize::MAX - 2);
    let c = probe_cell(w);
    kani::cover!(state_of(w) == BorrowState::Writing);
    kani::cover!(state_of(w) == BorrowState::Reading);
    kani::cover!(state_of(w) == BorrowState::Unused);
    // shared borrow: possible iff not mutably borrowed; counts one reader while the guard lives
    match c.try_borrow() {
        Ok(g) => {
            assert!(state_of(w) != BorrowState::Writing);
            assert!(c.borrow.get().0 == w + 1);
            assert!(c.try_borrow_mut().is_err()); // no mutable borrow while shared
            let g2 = GcRef::clone(&g);
            assert!(c.borrow.get().0 == w + 2);
            drop(g2);
            drop(g);
        }
        Err(_) => assert!(state_of(w) == BorrowState::Writing),
    }
    assert!(c.borrow.get().0 == w); // guards restore the state
    // mutable borrow: possible iff unused; excludes every other borrow; restored to Unused
    match c.try_borrow_mut() {
        Ok(g) => {
            assert!(state_of(w) == BorrowState::Unused);
            assert!(c.borrow.get().borrowed() == BorrowState::Writing);
            assert!(c.try_borrow().is_err() && c.try_borrow_mut().is_err());
            drop(g);
            assert!(c.borrow.get().borrowed() == BorrowState::Unused);
        }
        Err(_) => assert!(state_of(w) != BorrowState::Unused),
    }
}

#[kani::proof]
fn c09_cell_canary_must_fail() {
    let w: usize = kani::any();
    kani::assume(w == usize::MAX || w < usize::MAX - 2);
    let _c = probe_cell(w);
    assert!(false, "canary");
}

#[cfg(verif_replay)]
include!("/verif/.cache/playback/cell.rs");
