//! C11 kernel (in-crate part): when the string builder may emit a Latin-1 buffer
//! (`Segment::can_be_latin1`, boa_string/src/builder.rs).
//!
//! Pulled in by `#[cfg(kani)] #[path = "/verif/kani/string_in/builder_seg.rs"] mod verif_kani;`
//! in /repo/core/string/src/builder.rs.
//!
//! Spec: a builder output must have exactly the pushed code units; a segment may go into a Latin-1
//! buffer (one byte per unit, `code_point as u8`) only if every one of its code units is <= 0xFF.

// ASSUME-FILE[assume]: none.

use super::*;

// FN: Segment::can_be_latin1
#[kani::proof]
fn c11_builder_segment_can_be_latin1() {
    let c: char = kani::any();
    kani::cover!(c as u32 == 0x100);
    kani::cover!(c as u32 == 0xFF);
    let seg = Segment::CodePoint(c);
    // lossless narrowing possible <=> the code point is a single unit <= 0xFF
    assert!(seg.can_be_latin1() == ((c as u32) as u8 as u32 == c as u32));
    let b: u8 = kani::any();
    assert!(Segment::Latin1(b).can_be_latin1());
    let w: [u16; 1] = [kani::any()];
    let l: [u8; 1] = [b];
    assert!(!Segment::Str(JsStr::utf16(&w)).can_be_latin1());
    assert!(Segment::Str(JsStr::latin1(&l)).can_be_latin1());
}

#[cfg(verif_replay)]
include!("/verif/.cache/playback/builder_seg.rs");
