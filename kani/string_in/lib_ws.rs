//! C11 kernel (in-crate part): the two whitespace tables behind `JsString::{trim,trim_start,trim_end}`
//! (`is_trimmable_whitespace_latin1` for Latin-1 buffers, `is_trimmable_whitespace` for UTF-16 buffers,
//! boa_string/src/lib.rs).
//!
//! Pulled in by `#[cfg(kani)] #[path = "/verif/kani/string_in/lib_ws.rs"] mod verif_kani;`
//! in /repo/core/string/src/lib.rs.
//!
//! Spec: trimming must not depend on the representation: a code unit <= 0xFF is trimmable in a Latin-1
//! buffer iff the same unit is trimmable in a UTF-16 buffer; and the set is ECMAScript WhiteSpace +
//! LineTerminator (12.2, 12.3).

// ASSUME-FILE[assume]: none (full domain: all 256 bytes / all 2^16 code units / all usize index pairs).
// ASSUME-FILE[stub]: `StaticJsStrings::get_string` (canonicalisation against the ~800-entry static-string table, a lazily built
//   hash map CBMC cannot get through) is replaced by `None` = "not a well-known string".  Assumed contract: when it
//   returns Some(s), s has the same code units as its argument.  A representation-dependence bug inside that table is
//   NOT detected.
// ASSUME-FILE[drop]: the slice result is forgotten (its drop glue walks the string vtables).
// ASSUME-FILE[unwind]: loops over the 6 code units of the static base string "length".

use super::*;

/// ECMAScript WhiteSpace and LineTerminator code points (those that fit a UTF-16 code unit).
fn s_trimmable(u: u16) -> bool {
    u == 0x0009
        || u == 0x000B
        || u == 0x000C
        || u == 0x0020
        || u == 0x00A0
        || u == 0xFEFF
        || u == 0x1680
        || (u >= 0x2000 && u <= 0x200A)
        || u == 0x202F
        || u == 0x205F
        || u == 0x3000
        || u == 0x000A
        || u == 0x000D
        || u == 0x2028
        || u == 0x2029
}

/// The predicate the UTF-16 trim path applies to a code unit.
fn utf16_path(u: u16) -> bool {
    char::from_u32(u32::from(u)).is_some_and(is_trimmable_whitespace)
}

// FN: is_trimmable_whitespace_latin1, is_trimmable_whitespace
#[kani::proof]
fn c11_trim_tables_agree_on_latin1_units() {
    let c: u8 = kani::any();
    kani::cover!(c == 0xA0);
    kani::cover!(c == 0x85);
    assert!(is_trimmable_whitespace_latin1(c) == utf16_path(u16::from(c)));
    assert!(is_trimmable_whitespace_latin1(c) == s_trimmable(u16::from(c)));
}

// FN: is_trimmable_whitespace
#[kani::proof]
fn c11_trim_table_utf16_is_ecmascript_whitespace() {
    let u: u16 = kani::any();
    kani::cover!(u == 0xFEFF);
    kani::cover!(u >= 0xD800 && u < 0xE000);
    assert!(utf16_path(u) == s_trimmable(u));
}


/// `JsString::slice(p1, p2)` on a (static, 6-unit) base string, for EVERY pair of usize indices: the unsafe
/// `slice_unchecked` is only reached with `start <= end <= len` (its in-place `requires`, asserted at the call
/// site), and the result has exactly the units `base[p1 .. min(p2, len)]` (empty when p1 is not below that end).
// FN: JsString::slice, JsString::slice_unchecked
#[kani::proof]
#[kani::unwind(9)]
fn c11_slice_indices_all_usize() {
    let base = StaticJsStrings::LENGTH; // "length"
    assert!(base.len() == 6);
    let (p1, p2): (usize, usize) = (kani::any(), kani::any());
    kani::cover!(p1 > 6 && p2 > p1);
    kani::cover!(p1 == 2 && p2 == 5);
    kani::cover!(p2 > 6 && p1 < 6);
    let r = base.slice(p1, p2);
    let end = if p2 > 6 { 6 } else { p2 };
    let want_len = if p1 >= end { 0 } else { end - p1 };
    assert!(r.len() == want_len);
    let units: [u16; 6] = [0x6C, 0x65, 0x6E, 0x67, 0x74, 0x68];
    let i: usize = kani::any();
    kani::assume(i < want_len);
    assert!(r.as_str().get(i) == Some(units[p1 + i]));
    std::mem::forget(r);
}


fn get_string_none(_string: &JsStr<'_>) -> Option<JsString> {
    None
}

/// `JsString::concat` of two strings in any mix of representations = the concatenation of their code units
/// (heap-allocated sequence string; Latin-1 buffer only when both operands are Latin-1).
// BOUND: each operand at most 2 code units (all values, all four representation pairs)
// FN: JsString::concat, JsString::concat_array, SequenceString::allocate
#[kani::proof]
#[kani::stub(crate::common::StaticJsStrings::get_string, get_string_none)]
#[kani::unwind(7)]
fn c11x_concat_units() {
    let (ua, ub): ([u16; 2], [u16; 2]) = (kani::any(), kani::any());
    let (na, nb): (usize, usize) = (kani::any(), kani::any());
    kani::assume(na <= 2 && nb <= 2);
    let la = [ua[0] as u8, ua[1] as u8];
    let lb = [ub[0] as u8, ub[1] as u8];
    let a_latin: bool = kani::any();
    let b_latin: bool = kani::any();
    if a_latin {
        kani::assume(ua[0] <= 0xFF && ua[1] <= 0xFF);
    }
    if b_latin {
        kani::assume(ub[0] <= 0xFF && ub[1] <= 0xFF);
    }
    let x = if a_latin { JsStr::latin1(&la[..na]) } else { JsStr::utf16(&ua[..na]) };
    let y = if b_latin { JsStr::latin1(&lb[..nb]) } else { JsStr::utf16(&ub[..nb]) };
    kani::cover!(a_latin && !b_latin && na == 2 && nb == 2);
    kani::cover!(a_latin && b_latin && na == 1 && nb == 2);
    let r = JsString::concat(x, y);
    assert!(r.len() == na + nb);
    let i: usize = kani::any();
    kani::assume(i < na + nb);
    let want = if i < na { ua[i] } else { ub[i - na] };
    assert!(r.as_str().get(i) == Some(want));
    assert!(r.as_str().is_latin1() == (a_latin && b_latin));
    std::mem::forget(r);
}


// NOTE: a heap `trim` harness (two allocations from symbolic Latin-1 / UTF-16 buffers of <= 2 units, then `trim`) did not
// finish in 40 min (attempts/c11_trim_heap.rs).  Representation independence of trimming rests on the two table lemmas
// above plus the `slice` contract.

#[cfg(verif_replay)]
include!("/verif/.cache/playback/lib_ws.rs");
