//! C11 kernel (in-crate part): the two whitespace tables behind `JsString::{trim,trim_start,trim_end}`
//! (`is_trimmable_whitespace_latin1` for Latin-1 buffers, `is_trimmable_whitespace` for UTF-16 buffers,
//! boa_string/src/lib.rs).
//!
//! Pulled in by `#[cfg(kani)] #[path = "/verif/kani/string_in/lib_ws.rs"] mod verif_kani;`
//! in /repo/core/string/src/lib.rs.
//!
//! Spec: trimming must not depend on the representation: a code unit <= 0xFF is trimmable in a Latin-1
//! buffer iff the same unit is trimmable in a UTF-16 buffer; and the set is ECMAScript WhiteSpace +
//! LineTerminator (12.2, 12.3).

// ASSUME-FILE[assume]: none (full domain: all 256 bytes / all 2^16 code units).

use super::*;

/// ECMAScript WhiteSpace and LineTerminator code points (those that fit a UTF-16 code unit).
fn s_trimmable(u: u16) -> bool {
    u == 0x0009
        || u == 0x000B
        || u == 0x000C
        || u == 0x0020
        || u == 0x00A0
        || u == 0xFEFF
        || u == 0x1680
        || (u >= 0x2000 && u <= 0x200A)
        || u == 0x202F
        || u == 0x205F
        || u == 0x3000
        || u == 0x000A
        || u == 0x000D
        || u == 0x2028
        || u == 0x2029
}

/// The predicate the UTF-16 trim path applies to a code unit.
fn utf16_path(u: u16) -> bool {
    char::from_u32(u32::from(u)).is_some_and(is_trimmable_whitespace)
}

// FN: is_trimmable_whitespace_latin1, is_trimmable_whitespace
#[kani::proof]
fn c11_trim_tables_agree_on_latin1_units() {
    let c: u8 = kani::any();
    kani::cover!(c == 0xA0);
    kani::cover!(c == 0x85);
    assert!(is_trimmable_whitespace_latin1(c) == utf16_path(u16::from(c)));
    assert!(is_trimmable_whitespace_latin1(c) == s_trimmable(u16::from(c)));
}

// FN: is_trimmable_whitespace
#[kani::proof]
fn c11_trim_table_utf16_is_ecmascript_whitespace() {
    let u: u16 = kani::any();
    kani::cover!(u == 0xFEFF);
    kani::cover!(u >= 0xD800 && u < 0xE000);
    assert!(utf16_path(u) == s_trimmable(u));
}

#[cfg(verif_replay)]
include!("/verif/.cache/playback/lib_ws.rs");
