#!/usr/bin/env python3
"""Driver for the contract-based checks of /verif (see DESIGN.md section 3.3).

Usage:  bin/check <Cxx> [--tier quick|thorough] [--replay <file>] [--keep-going]

Exit codes: 0 = every obligation discharged (or listed as known finding), guards passed
            1 = at least one unlisted VIOLATION (line "VIOLATION property=<id> replay=<path>")
            2 = undecided (lost anchor, compile error, timeout, vacuous harness, tool failure)
"""
import json
import os
import re
import shutil
import subprocess
import sys
import time

VERIF = os.path.dirname(os.path.dirname(os.path.abspath(__file__)))
REPO = os.environ.get("VERIF_REPO", "/repo")
CACHE = os.path.join(VERIF, ".cache")
TARGET = os.environ.get("VERIF_TARGET_DIR", os.path.join(CACHE, "kani"))
JOBS = int(os.environ.get("VERIF_JOBS", "8"))

# harness directory -> (cargo package, how to invoke)
CRATES = {
    "gc": {"pkg": "boa_gc", "cwd": "{repo}"},
    "engine": {"pkg": "boa_engine", "cwd": "{repo}"},
    "ast": {"pkg": "boa_ast", "cwd": "{repo}"},
    "string_in": {"pkg": "boa_string", "cwd": "{repo}"},
    "string": {"pkg": "verif_string_harness", "cwd": "{cache}/string_harness", "external": True},
}

STANDING_ASSUMPTIONS = [
    "CBMC 6.11 bit-precise model of Rust MIR as produced by Kani 0.68 (rustc nightly front end) is trusted",
    "CBMC's IEEE-754 model for + - * / comparisons, casts, trunc/floor/abs/copysign is trusted",
    "target x86-64, little-endian, 64-bit usize (what Kani compiles for)",
    "termination is not checked by Kani (partial correctness only)",
    "std's integer operations (checked_mul, checked_div, wrapping_rem, `as` casts) are the trusted definition of exact machine arithmetic; spec functions use i64/i128/u128 where a wider type makes overflow impossible",
    "code outside the listed kernel functions is NOT covered: the whole-program quantifier of the property is not decided (DESIGN.md section 5)",
]


def log(*a):
    print(*a, file=sys.stderr, flush=True)


# --------------------------------------------------------------------------- registry

class Harness:
    def __init__(self, name, file, line, crate):
        self.name = name
        self.file = file
        self.line = line
        self.crate = crate
        self.props = []
        self.kind = "proof"        # proof | bounded | canary
        self.tier = "quick"
        self.expect_panic = []
        self.expect_any = []       # alternatives: every failed check must match one of them, at least one must fail
        self.bound = None
        self.target_fn = None      # proof_for_contract target
        self.fns = []              # functions exercised (FN: tags)
        self.features = None
        self.also_features = None  # additionally run (thorough tier) on this cargo feature set
        self.assumes = []          # ASSUME[..] notes attached
        self.form = "harness-contract"


MACRO_HARNESS_RE = re.compile(r"^[a-z_]+_harness!\(\s*(c\d\d[a-z]?_[A-Za-z0-9_]+)\s*,\s*([A-Za-z0-9_]+)")
HARNESS_RE = re.compile(r"^\s*(?:pub(?:\([a-z]+\))?\s+)?fn\s+(c\d\d[a-z]?_[A-Za-z0-9_]+)\s*\(")


def scan_registry():
    """Parse /verif/kani/**.rs for harness functions and their tag comments."""
    out = []
    root = os.path.join(VERIF, "kani")
    for crate in sorted(os.listdir(root)):
        cdir = os.path.join(root, crate)
        if not os.path.isdir(cdir) or crate not in CRATES:
            continue
        for dp, _dn, fns in os.walk(cdir):
            for fn in sorted(fns):
                if not fn.endswith(".rs"):
                    continue
                path = os.path.join(dp, fn)
                lines = open(path).read().split("\n")
                for i, l in enumerate(lines):
                    m = HARNESS_RE.match(l)
                    macro_target = None
                    if not m:
                        # harnesses instantiated by a local macro:  xyz_harness!(c01_add_fast, add_fast, ...);
                        m = MACRO_HARNESS_RE.match(l)
                        if not m:
                            continue
                        macro_target = "JsValue::" + m.group(2)
                    # walk upwards over attributes and comments
                    j = i - 1
                    attrs, comments = [], []
                    while j >= 0:
                        s = lines[j].strip()
                        if s.startswith("#["):
                            attrs.append(s)
                        elif s.startswith("//"):
                            comments.append(s)
                        else:
                            break
                        j -= 1
                    if macro_target:
                        attrs.append("#[kani::proof_for_contract(%s)]" % macro_target)
                    if not any("kani::proof" in a for a in attrs):
                        continue
                    h = Harness(m.group(1), path, i + 1, crate)
                    pm = re.match(r"c(\d\d)(x?)_", h.name)
                    h.props = ["C" + pm.group(1)]
                    if pm.group(2) == "x":
                        h.tier = "thorough"
                    if h.name.endswith("canary_must_fail"):
                        h.kind = "canary"
                    for a in attrs:
                        t = re.search(r"proof_for_contract\(([^)]+)\)", a)
                        if t:
                            h.target_fn = t.group(1).strip()
                            h.form = "in-place contract"
                    for c in reversed(comments):
                        c = c.lstrip("/").strip()
                        if c.startswith("ALSO:"):
                            h.props += [p.strip() for p in c[5:].split(",") if p.strip()]
                        elif c.startswith("EXPECT-PANIC-ANY:"):
                            h.expect_any += [x.strip() for x in c[len("EXPECT-PANIC-ANY:"):].split("|") if x.strip()]
                        elif c.startswith("EXPECT-PANIC:"):
                            h.expect_panic.append(c[len("EXPECT-PANIC:"):].strip())
                        elif c.startswith("BOUND:"):
                            h.bound = c[len("BOUND:"):].strip()
                            if h.kind == "proof":
                                h.kind = "bounded"
                        elif c.startswith("FN:"):
                            h.fns += [p.strip() for p in c[3:].split(",") if p.strip()]
                        elif c.startswith("BOTH-FEATURES:"):
                            h.also_features = c[len("BOTH-FEATURES:"):].strip()
                        elif c.startswith("FEATURES:"):
                            h.features = c[len("FEATURES:"):].strip()
                    if h.target_fn and h.target_fn not in h.fns:
                        h.fns.insert(0, h.target_fn)
                    out.append(h)
    names = [h.name for h in out]
    dup = {n for n in names if names.count(n) > 1}
    if dup:
        raise SystemExit("duplicate harness names: %s" % sorted(dup))
    return out


ASSUME_PATTERNS = [
    (re.compile(r"kani::stub\("), "stub"),
    (re.compile(r"kani::stub_verified\("), "stub_verified (callee replaced by its verified contract)"),
    (re.compile(r"kani::assume\("), "assume"),
    (re.compile(r"MaybeUninit|uninit\(\)"), "uninitialised forged argument"),
    (re.compile(r"mem::forget|ManuallyDrop"), "drop suppressed"),
    (re.compile(r"\bunsafe\b"), "unsafe in harness"),
    (re.compile(r"transmute"), "transmute"),
    (re.compile(r"kani::unwind\("), "unwind bound"),
]


def scan_assumptions(files):
    """Mechanical scan (DESIGN 3.5): each hit must be justified by an `// ASSUME[tag]: why`
    comment within the 6 preceding lines (or on the same line); otherwise it is reported as
    unjustified (exit 2)."""
    found, unjustified = [], []
    for path in sorted(set(files)):
        if not os.path.exists(path):
            continue
        lines = open(path).read().split("\n")
        for i, l in enumerate(lines):
            if l.strip().startswith("//"):
                continue
            for rx, what in ASSUME_PATTERNS:
                if rx.search(l):
                    why = None
                    for k in range(i, max(-1, i - 12), -1):
                        mm = re.search(r"ASSUME\[([^\]]+)\]:\s*(.*)", lines[k])
                        if mm:
                            why = "[%s] %s" % (mm.group(1), mm.group(2))
                            break
                        if k < i and re.match(r"^\s*(pub\s+|pub\(crate\)\s+)?fn\s", lines[k]) and k != i:
                            # crossed into the enclosing fn header: look only at comments above it
                            pass
                    rel = os.path.relpath(path, VERIF)
                    if why is None:
                        # file-level blanket justification
                        for k in range(0, min(len(lines), 60)):
                            mm = re.search(r"ASSUME-FILE\[%s\]:\s*(.*)" % re.escape(what.split()[0]), lines[k])
                            if mm:
                                why = "[file] " + mm.group(1)
                                break
                    if why is None:
                        unjustified.append("%s:%d %s: %s" % (rel, i + 1, what, l.strip()[:80]))
                    else:
                        found.append("%s:%d %s — %s" % (rel, i + 1, what, why))
    return found, unjustified


# --------------------------------------------------------------------------- hooks

def hook_host(harness_file):
    """Find the /repo file that pulls in this harness file via #[path]."""
    rel = os.path.relpath(harness_file, VERIF)
    needle = '#[path = "/verif/%s"]' % rel
    try:
        r = subprocess.run(["grep", "-rlF", needle, "--include=*.rs",
                            os.path.join(REPO, "core")], capture_output=True, text=True)
    except Exception as e:  # pragma: no cover
        return None
    hosts = [x for x in r.stdout.split("\n") if x]
    return hosts[0] if hosts else None


CONTRACT_RE = re.compile(r"cfg_attr\(kani,\s*kani::(requires|ensures|modifies)\((.*)\)\)\]\s*$")


def contracts_in(host):
    """List in-place contract clauses in a repo file: (fn name, line, kind, text)."""
    res = []
    if not host or not os.path.exists(host):
        return res
    lines = open(host).read().split("\n")
    pending = []
    for i, l in enumerate(lines):
        m = CONTRACT_RE.search(l.strip())
        if m:
            pending.append((i + 1, m.group(1), m.group(2)))
            continue
        if pending:
            fm = re.search(r"\bfn\s+([A-Za-z0-9_]+)", l)
            if fm:
                for (ln, k, t) in pending:
                    res.append({"fn": fm.group(1), "file": os.path.relpath(host, REPO), "line": ln,
                                "clause": k, "text": t})
                pending = []
            elif l.strip() and not l.strip().startswith("#[") and not l.strip().startswith("//"):
                pending = []
    return res


# --------------------------------------------------------------------------- running Kani

def prepare_external(crate):
    """The boa_string harness crate lives outside /repo (public API only, no hook needed).
    Its Cargo.toml is generated so that it points at $VERIF_REPO."""
    dst = os.path.join(CACHE, "string_harness")
    src = os.path.join(VERIF, "kani", "string")
    os.makedirs(os.path.join(dst, "src"), exist_ok=True)
    toml = open(os.path.join(src, "Cargo.toml.in")).read().replace("@REPO@", REPO)
    write_if_changed(os.path.join(dst, "Cargo.toml"), toml)
    shutil.copyfile(os.path.join(REPO, "Cargo.lock"), os.path.join(dst, "Cargo.lock"))
    lib = "".join('#[path = "%s"]\nmod %s;\n' % (os.path.join(src, f), f[:-3])
                  for f in sorted(os.listdir(src)) if f.endswith(".rs"))
    lib = "#![allow(unused, clippy::all)]\n" + lib
    write_if_changed(os.path.join(dst, "src", "lib.rs"), lib)
    return dst


def write_if_changed(path, text):
    if os.path.exists(path) and open(path).read() == text:
        return
    with open(path, "w") as f:
        f.write(text)


def kani_cmd(crate, filters, out_json, timeout_s, features=None, extra=None):
    info = CRATES[crate]
    cmd = ["cargo", "kani"]
    if not info.get("external"):
        cmd += ["-p", info["pkg"]]
    cmd += ["-Z", "function-contracts", "-Z", "stubbing", "-Z", "unstable-options",
            "--output-format", "terse", "-j", str(JOBS),
            "--export-json", out_json, "--harness-timeout", "%ds" % timeout_s]
    if features:
        cmd += ["--features", features]
    for f in filters:
        cmd += ["--harness", f]
    if extra:
        cmd += extra
    return cmd


def run_kani(crate, filters, tag, timeout_s, features=None):
    """Run one cargo-kani invocation; returns (parsed json or None, log text, wall seconds, cmd)."""
    info = CRATES[crate]
    cwd = info["cwd"].format(repo=REPO, cache=CACHE)
    if info.get("external"):
        cwd = prepare_external(crate)
    rundir = os.path.join(CACHE, "run")
    os.makedirs(rundir, exist_ok=True)
    out_json = os.path.join(rundir, "%s.json" % tag)
    out_log = os.path.join(rundir, "%s.log" % tag)
    if os.path.exists(out_json):
        os.remove(out_json)
    env = dict(os.environ)
    env["CARGO_NET_OFFLINE"] = "true"
    env["CARGO_TARGET_DIR"] = TARGET
    env.pop("RUSTFLAGS", None)
    cmd = kani_cmd(crate, filters, out_json, timeout_s, features)
    t0 = time.time()
    with open(out_log, "w") as lf:
        # overall guard: compile (<= 10 min) + all harnesses in waves
        try:
            p = subprocess.run(cmd, cwd=cwd, env=env, stdout=lf, stderr=subprocess.STDOUT,
                               timeout=int(os.environ.get("VERIF_OVERALL_TIMEOUT", "5400")))
            rc = p.returncode
        except subprocess.TimeoutExpired:
            rc = -9
    wall = time.time() - t0
    text = open(out_log, errors="replace").read()
    data = None
    if os.path.exists(out_json):
        try:
            data = json.load(open(out_json))
        except Exception as e:
            log("cannot parse %s: %s" % (out_json, e))
    return data, text, wall, cmd, rc


def parse_results(data):
    """-> {short harness name: {...}}"""
    res = {}
    if not data:
        return res
    stats = {c["harness_id"]: c.get("cbmc_stats", {}) for c in data.get("cbmc", [])}
    for r in data.get("verification_results", {}).get("results", []):
        hid = r["harness_id"]
        short = hid.split("::")[-1]
        checks = r.get("checks", [])
        res[short] = {
            "id": hid,
            "status": r.get("status"),
            "duration_ms": r.get("duration_ms", 0),
            "checks": checks,
            "stats": stats.get(hid, {}),
        }
    return res


def is_cover(c):
    return c.get("category") == "cover"


def loc_of(c):
    l = c.get("location") or {}
    return "%s:%s" % (l.get("file", "?"), l.get("line", "?"))


def classify_check(c, contract_lines):
    """cover | contract (in-place clause) | assertion (harness-side spec assertion) | safety"""
    if is_cover(c):
        return "cover"
    l = c.get("location") or {}
    f = str(l.get("file", ""))
    if c.get("category") == "assertion":
        if f.startswith("/verif/") or f.startswith("../verif/") or "/verif/kani/" in f:
            d = c.get("description", "")
            if d.startswith("attempt to "):
                return "safety"
            return "assertion"
        key = (os.path.basename(f), str(l.get("line")))
        if key in contract_lines:
            return "contract"
    return "safety"


# --------------------------------------------------------------------------- known findings

def load_known():
    """known-findings.txt lines:
         finding: property=C13 harness=<name> check=<substring of failed check description> :: text
         fixed: property=C11 <commit> <what failed>
    """
    res = []
    p = os.path.join(VERIF, "known-findings.txt")
    if not os.path.exists(p):
        return res
    for l in open(p):
        l = l.strip()
        if not l.startswith("finding:"):
            continue
        m = re.match(r"finding:\s*property=(\S+)\s+harness=(\S+)\s+check=\"([^\"]*)\"\s*::\s*(.*)", l)
        if m:
            res.append({"property": m.group(1), "harness": m.group(2), "check": m.group(3), "text": m.group(4)})
    return res


# --------------------------------------------------------------------------- replay

def playback(h, res, prop, tier):
    """Re-run the failing harness alone with concrete playback, store the replay file, try a
    native run of the generated test against the real crate.  Returns (replay_path, replayed:bool)."""
    rdir = os.path.join(VERIF, "replays", prop)
    os.makedirs(rdir, exist_ok=True)
    base = os.path.join(rdir, h.name)
    info = CRATES[h.crate]
    cwd = info["cwd"].format(repo=REPO, cache=CACHE)
    env = dict(os.environ)
    env["CARGO_NET_OFFLINE"] = "true"
    env["CARGO_TARGET_DIR"] = TARGET
    cmd = ["cargo", "kani"]
    if not info.get("external"):
        cmd += ["-p", info["pkg"]]
    cmd += ["-Z", "function-contracts", "-Z", "stubbing", "-Z", "unstable-options", "-Z", "concrete-playback",
            "--concrete-playback=print", "--output-format", "regular",
            "--harness-timeout", "900s", "--harness", res["id"], "--exact"]
    if h.features:
        cmd += ["--features", h.features]
    failed = [c for c in res["checks"] if c.get("status") == "Failure"]
    meta = {
        "property": prop, "harness": h.name, "harness_id": res["id"], "harness_file": os.path.relpath(h.file, VERIF),
        "functions": h.fns, "kind": h.kind, "bound": h.bound,
        "failed_obligations": [{"description": c.get("description"), "location": loc_of(c),
                                "function": c.get("function"), "category": c.get("category")} for c in failed],
        "kani_cmd": " ".join(cmd), "repo": REPO,
    }
    test_src, out = None, ""
    try:
        p = subprocess.run(cmd, cwd=cwd, env=env, capture_output=True, text=True, timeout=1500)
        out = p.stdout + p.stderr
        tests = re.findall(r"Concrete playback unit test for `[^`]*`:\n```\n?(.*?)```", out, re.S)
        # one test per failed check and per satisfied cover: keep the failed checks only
        tests = [t for t in tests if "Check for `cover`" not in t and "Check for `NaN`" not in t]
        seen, uniq = set(), []
        for t in tests:
            nm = re.search(r"fn (kani_concrete_playback_[A-Za-z0-9_]+)", t)
            if nm and nm.group(1) not in seen and "#[test]" in t:
                seen.add(nm.group(1))
                head = t[:t.index("#[test]")]
                desc = " ".join(x.strip().lstrip("/").strip() for x in head.split("\n") if x.strip())
                # Kani's multi-line doc comment is not valid Rust when the description has newlines
                uniq.append("// %s\n%s" % (desc.replace("\n", " "), t[t.index("#[test]"):]))
        if uniq:
            test_src = "\n".join(uniq)
    except subprocess.TimeoutExpired:
        out = "concrete playback run timed out"
    meta["verifier_output_tail"] = out[-8000:]
    meta["concrete_playback_test"] = test_src
    replayed = False
    if test_src:
        vals = re.findall(r"//\s*(.*)\n\s*vec!\[([^\]]*)\]", test_src)
        meta["concrete_values"] = [{"value": a.strip(), "bytes": b.strip()} for a, b in vals]
        try:
            replayed, nat = native_replay(h, test_src, env)
            meta["native_replay"] = nat
        except Exception as e:  # never let the replay machinery mask the violation
            meta["native_replay"] = {"error": repr(e)}
    meta["replayed_on_real_code"] = replayed
    with open(base + ".json", "w") as f:
        json.dump(meta, f, indent=1)
    return base + ".json", replayed


def native_replay(h, test_src, env):
    """Compile the real crate natively (cargo kani playback = cargo test with cfg(kani) and the
    concrete-value kani library) with the generated unit test spliced next to the harness, and run it.
    The test must FAIL (panic in the harness's assertion / the real code) to count as replayed."""
    info = CRATES[h.crate]
    cwd = info["cwd"].format(repo=REPO, cache=CACHE)
    tname = "kani_concrete_playback_" + h.name + "_"
    pdir = os.path.join(CACHE, "playback")
    os.makedirs(pdir, exist_ok=True)
    modname = os.path.splitext(os.path.basename(h.file))[0]
    # every harness file ends with:  #[cfg(verif_replay)] include!("/verif/.cache/playback/<mod>.rs");
    # with --cfg verif_replay every harness file of the crate includes its playback file: make them all
    # exist, empty except for the one being replayed
    # (dependencies hosted in other harness directories - boa_string, boa_gc under an engine replay - are compiled
    # with the same cfg, so the files of every harness directory must exist)
    kroot = os.path.dirname(os.path.dirname(h.file))
    for d in sorted(os.listdir(kroot)):
        if not os.path.isdir(os.path.join(kroot, d)):
            continue
        for fn in os.listdir(os.path.join(kroot, d)):
            if fn.endswith(".rs"):
                mine = os.path.join(kroot, d) == os.path.dirname(h.file) and fn == modname + ".rs"
                with open(os.path.join(pdir, fn), "w") as f:
                    f.write(test_src if mine else "")
    env = dict(env)
    env["RUSTFLAGS"] = (env.get("RUSTFLAGS", "") + " --cfg verif_replay").strip()
    env["CARGO_TARGET_DIR"] = TARGET + "-playback"
    cmd = ["cargo", "kani", "playback", "-Z", "concrete-playback", "--lib"]
    if not info.get("external"):
        cmd += ["-p", info["pkg"]]
    if h.features:
        cmd += ["--features", h.features]
    cmd += ["--", tname]
    p = subprocess.run(cmd, cwd=cwd, env=env, capture_output=True, text=True, timeout=3000)
    out = p.stdout + p.stderr
    failed = bool(re.search(r"test \S*%s\S* \.\.\. FAILED" % re.escape(tname), out)) or \
        ("panicked at" in out and "test result: FAILED" in out)
    ran = bool(re.search(r"running [1-9]\d* tests?", out)) or failed
    return failed, {"cmd": " ".join(cmd), "test": tname, "ran": ran, "failed_natively": failed,
                    "output_tail": out[-3000:]}


# --------------------------------------------------------------------------- main

VERUS_UNITS = {
    # property -> (extractor, generated file, minimum number of verified items (vacuity guard), back end label)
    "C12": ("extract.py", "bits_gen.rs", 20, "verus / z3 (bit_vector)"),
    "C13": ("extract_radix.py", "radix_gen.rs", 18, "verus / z3 (loop invariant, nonlinear_arith, bit_vector lemmas)"),
    "C15": ("extract_batch.py", "batch_gen.rs", 6, "verus / z3 (linear integer arithmetic)"),
}
VERUS_FNS = {
    "C13": ["from_js_str_radix::can_not_overflow [verus]", "from_js_str_radix::to_digit [verus]",
            "from_js_str_radix u64 accumulation loop [verus, iteration frame rewritten]"],
    "C15": ["compute_batch_offsets [verus]"],
}
VERUS_ASSUMPTIONS = {
    "C13": [
        "vstd's specifications of u64::from(u8), usize::from(u8), u8::wrapping_sub, u8::saturating_add, size_of::<u64>() and Vec indexing are trusted",
        "the iteration frame (`for c in src` over JsStr::iter().map(u8::try_from(..).expect(..))) is replaced by an indexed loop over &Vec<u8>; the u16->u8 conversion and its expect are outside the Verus unit (Kani obligations c13_* cover them up to their bounds)",
        "`result as f64` (IEEE round-to-nearest of the exact integer) and the f64 accumulation branch are outside the Verus unit",
        "Verus 0.2026.09.13 / Z3 are trusted; termination is proved (decreases clauses)"],
    "C15": [
        "BATCH_SIZE = size_of::<u64>() is folded to the literal 8 in the Verus text (the Kani obligation c15_batch_offsets_partition uses the real constant)",
        "vstd's specification of usize::min is trusted; usize is 64-bit or 32-bit (Verus' arch-size abstraction)",
        "the copy loops themselves (raw pointers, AtomicU8/AtomicU64) are outside the Verus unit: lemma_phase* derive their index obligations from the contract of compute_batch_offsets only; the loops' memory behaviour is checked by the bounded Kani harnesses c15x_mem*",
        "Verus 0.2026.09.13 / Z3 are trusted"],
}


def verus_failed_fns(gen, stderr):
    """Names of the functions of the generated file that contain a reported error location."""
    try:
        lines = open(gen).read().split("\n")
    except OSError:
        return []
    names = set()
    for blk in re.split(r"\n(?=error)", stderr):
        if not blk.startswith("error"):
            continue
        for m in re.finditer(r"--> [^\n:]*%s:(\d+):" % re.escape(os.path.basename(gen)), blk):
            ln = int(m.group(1))
            for k in range(min(ln, len(lines)) - 1, -1, -1):
                fm = re.match(r"\s*(?:pub\s+)?(?:open\s+spec\s+|proof\s+|const\s+)?fn\s+(\w+)", lines[k])
                if fm:
                    names.add(fm.group(1))
                    break
    return sorted(names)


def run_verus(prop):
    """C12: second, independent solver; C13: unbounded loop proof.  Returns dict(status=ok|violation|undecided, ...)."""
    extractor, gen_name, min_items, label = VERUS_UNITS[prop]
    vdir = os.path.join(CACHE, "verus")
    os.makedirs(vdir, exist_ok=True)
    gen = os.path.join(vdir, gen_name)
    t0 = time.time()
    ex = subprocess.run([sys.executable, os.path.join(VERIF, "verus", extractor), REPO, gen], capture_output=True, text=True)
    if ex.returncode != 0:
        return {"status": "undecided", "why": "verus extraction failed (lost anchor): " + (ex.stderr or ex.stdout)[-400:]}
    try:
        p = subprocess.run(["verus", gen, "--output-json", "--time"], cwd=vdir, capture_output=True, text=True, timeout=900)
    except subprocess.TimeoutExpired:
        return {"status": "undecided", "why": "verus timed out"}
    out = p.stdout
    try:
        j = json.loads(out[out.index("{"):])
    except Exception:
        return {"status": "undecided", "why": "cannot parse verus output: " + (p.stderr or out)[-600:]}
    vr = j.get("verification-results", {})
    crate = gen_name[:-3] + "::"
    res = {"status": "ok", "back_end": label, "verified": vr.get("verified", 0), "errors": vr.get("errors", 0),
           "extraction": ex.stdout.strip(), "generated_file": gen,
           "cmd": "python3 verus/%s %s %s && verus %s --output-json --time" % (extractor, REPO, gen, gen),
           "wall_s": round(time.time() - t0, 1), "smt_time_ms": (j.get("times-ms", {}) or {}).get("smt", {}),
           "lemmas": sorted(k.split("::")[-1] for k in (j.get("func-details") or {}).keys() if "lemma_" in k or "fact_" in k),
           "functions": sorted(k.split("::")[-1] for k in (j.get("func-details") or {}).keys() if k.startswith(crate))}
    # mechanical assumption scan of the text Verus actually checked: none of these may appear
    try:
        gtxt = open(gen).read()
    except OSError:
        gtxt = ""
    res["assumption_scan"] = {k: len(re.findall(r"\b%s\b" % k, gtxt)) for k in
                              ("assume", "admit", "external_body", "assume_specification", "external")}
    if any(res["assumption_scan"].values()):
        res["assumption_scan_note"] = "the generated text contains unproved assumptions - listed, not proved"
    if vr.get("encountered-vir-error") or (not vr.get("success") and not vr.get("errors")):
        res.update(status="undecided", why="verus rejected the extracted text: " + p.stderr[-800:])
    elif vr.get("errors", 0) > 0:
        failed = sorted(set(re.findall(r"(?:lemma|fact)_\w+", p.stderr)) | set(verus_failed_fns(gen, p.stderr)))
        res.update(status="violation", failed=failed, stderr=p.stderr[-3000:])
    elif vr.get("verified", 0) < min_items:
        res.update(status="undecided", why="verus verified only %s items (vacuity guard)" % vr.get("verified"))
    return res


def warm():
    """setup_cmd: build the Kani dependency caches by running one cheap harness per crate."""
    rc = 0
    for crate, flt in (("gc", "c09_constants"), ("string_in", "c11_trim_tables_agree"), ("string", "c11_canary_must_fail"),
                       ("engine", "c12_bits_constants")):
        data, text, wall, cmd, code = run_kani(crate, [flt], "warm-" + crate, 600)
        ok = data is not None
        log("[setup] %s: %s in %.0fs" % (crate, "ok" if ok else "FAILED", wall))
        if not ok:
            log(text[-2000:])
            rc = 1
    return rc


def main(argv):
    if argv and argv[0] == "--warm":
        return warm()
    import argparse
    ap = argparse.ArgumentParser()
    ap.add_argument("prop")
    ap.add_argument("--tier", default=os.environ.get("VERIF_TIER", "quick"))
    ap.add_argument("--replay")
    ap.add_argument("--only", help="substring filter on harness names (development)")
    ap.add_argument("--no-playback", action="store_true")
    a = ap.parse_args(argv)
    prop, tier = a.prop, a.tier
    if tier not in ("quick", "thorough"):
        tier = "quick"
    try:
        seed = int(os.environ.get("VERIF_SEED", "0"))
    except ValueError:
        seed = 0
    if a.replay:
        return replay_file(a.replay)
    t0 = time.time()
    reg = scan_registry()
    mine = [h for h in reg if prop in h.props and (tier == "thorough" or h.tier == "quick")]
    if a.only:
        mine = [h for h in mine if a.only in h.name]
    if not mine:
        log("no harness registered for %s" % prop)
        return 2
    undecided, violations, known_hits, notes = [], [], [], []

    # 1. anchors
    hosts = {}
    for f in sorted({h.file for h in mine}):
        crate = [h.crate for h in mine if h.file == f][0]
        if CRATES[crate].get("external"):
            hosts[f] = None
            continue
        host = hook_host(f)
        hosts[f] = host
        if host is None:
            undecided.append("lost anchor: no #[path] hook in %s for %s" % (REPO, os.path.relpath(f, VERIF)))
    if undecided:
        return finish(prop, tier, seed, t0, mine, {}, undecided, violations, known_hits, hosts, [], [])

    # 2. assumption scan
    assumptions, unjust = scan_assumptions([h.file for h in mine] + [os.path.join(VERIF, "kani", "engine", "root.rs")]
                                           if any(h.crate == "engine" for h in mine) else [h.file for h in mine])
    for u in unjust:
        undecided.append("unjustified assumption (needs // ASSUME[tag]: comment): " + u)

    # 3. run Kani, one invocation per (crate, features)
    results, runs = {}, []
    groups = {}
    for h in mine:
        groups.setdefault((h.crate, h.features), []).append(h)
    if tier == "thorough":
        import copy
        extra = []
        for h in mine:
            if h.also_features:
                h2 = copy.copy(h)
                h2.features = h.also_features
                h2.also_features = None
                h2.rkey = "%s@%s" % (h.name, h2.features)
                groups.setdefault((h2.crate, h2.features), []).append(h2)
                extra.append(h2)
        mine = mine + extra
    per_harness_timeout = int(os.environ.get("VERIF_HARNESS_TIMEOUT", "900" if tier == "quick" else "2400"))
    for (crate, feats), hs in sorted(groups.items(), key=lambda kv: (kv[0][0], kv[0][1] or "")):
        filters = sorted({h.name for h in hs})
        tag = "%s-%s-%s%s" % (prop, tier, crate, ("-" + feats.replace(",", "_")) if feats else "")
        log("[%s] cargo kani: crate=%s features=%s harnesses=%d" % (prop, crate, feats, len(filters)))
        data, text, wall, cmd, rc = run_kani(crate, filters, tag, per_harness_timeout, feats)
        runs.append({"crate": crate, "features": feats, "cmd": " ".join(cmd), "wall_s": round(wall, 1), "rc": rc})
        if data is None:
            tail = "\n".join([l for l in text.split("\n") if re.search(r"^error|^\s+-->|panicked|internal compiler error|Kani (un)?expectedly", l)][:30])
            undecided.append("kani produced no result for crate %s (rc=%s): compile error, ICE or timeout\n%s\n%s"
                             % (crate, rc, tail, text[-1500:]))
            continue
        pr = parse_results(data)
        for h in hs:
            if h.name in pr:
                results[getattr(h, "rkey", h.name)] = pr[h.name]
            else:
                undecided.append("harness %s did not run (not found by Kani: renamed module or cfg?)" % h.name)

    # 4. evaluate
    known = load_known()
    contract_lines = set()
    all_contracts = []
    for f, host in hosts.items():
        for c in contracts_in(host):
            contract_lines.add((os.path.basename(c["file"]), str(c["line"])))
            all_contracts.append(c)
    for h in mine:
        r = results.get(getattr(h, "rkey", h.name))
        if r is None:
            continue
        checks = r["checks"]
        # CBMC's --nan-check ("NaN on addition" ...) flags every float operation that can produce NaN.
        # Producing NaN (inf - inf, 0/0) is specified ECMAScript behaviour, not an obligation of ours:
        # these lint checks are dropped (counted under "ignored_nan_lint" in the evidence).
        nan_lint = [c for c in checks if c.get("category") == "NaN" or str(c.get("description", "")).startswith("NaN on ")]
        if nan_lint:
            r["ignored_nan_lint"] = len(nan_lint)
            checks = [c for c in checks if c not in nan_lint]
            r["checks"] = checks
            if r.get("status") == "Failure" and not [c for c in checks if c.get("status") == "Failure"]:
                r["status"] = "Success"
        failed = [c for c in checks if c.get("status") == "Failure"]
        undet = [c for c in checks if c.get("status") in ("Undetermined", "SolverError")]
        covers = [c for c in checks if is_cover(c)]
        unsat = [c for c in covers if c.get("status") != "Satisfied"]
        r["class"] = {}
        for c in checks:
            k = classify_check(c, contract_lines)
            r["class"][k] = r["class"].get(k, 0) + 1
        r["n_failed"] = len(failed)
        if not checks or r.get("status") not in ("Success", "Failure"):
            undecided.append("harness %s: no verdict (status=%s; timeout / out of memory / tool error)" % (h.name, r.get("status")))
            r["verdict"] = "undecided"
            continue
        if undet:
            undecided.append("harness %s: %d undetermined checks" % (h.name, len(undet)))
            r["verdict"] = "undecided"
            continue
        if h.kind == "canary":
            if failed and any("canary" in c.get("description", "") for c in failed):
                r["verdict"] = "canary-ok"
            else:
                undecided.append("canary %s did not fail: preconditions are vacuous" % h.name)
                r["verdict"] = "undecided"
            continue
        if h.expect_any:
            unexpected = [c for c in failed if not any(e in c.get("description", "") for e in h.expect_any)]
            if not failed:
                unexpected = [{"description": "expected panic not reachable: one of " + " | ".join(h.expect_any),
                               "location": {"file": h.file, "line": h.line}, "function": h.name,
                               "category": "expected_panic", "status": "Failure"}]
                r["checks"] = checks + unexpected
            bad = unexpected
        elif h.expect_panic:
            unexpected = [c for c in failed if not any(e in c.get("description", "") for e in h.expect_panic)]
            missing = [e for e in h.expect_panic if not any(e in c.get("description", "") for c in failed)]
            if missing and not unexpected:
                # the documented panic is no longer reachable: contract ("panics exactly when ...") broken
                unexpected = [{"description": "expected panic not reachable: " + "; ".join(missing),
                               "location": {"file": h.file, "line": h.line}, "function": h.name,
                               "category": "expected_panic", "status": "Failure"}]
                r["checks"] = checks + unexpected
            bad = unexpected
        else:
            bad = failed
        if not bad and unsat and not failed:
            undecided.append("harness %s: cover not satisfied (%s): vacuous precondition or unreachable case split"
                             % (h.name, "; ".join(c.get("description", "") for c in unsat)))
            r["verdict"] = "undecided"
            continue
        if prop == "C02" and bad:
            # C02 owns only the "no internal failure" obligations (panics, overflow, bounds, pointer checks) of the
            # harnesses it shares with other properties; a failed functional clause is reported by its own property
            bad = [c for c in bad if classify_check(c, contract_lines) == "safety" or c.get("category") == "expected_panic"]
        if not bad:
            r["verdict"] = "discharged"
            continue
        # a failing obligation
        r["verdict"] = "failed"
        r["bad"] = bad
        kn = [k for k in known if k["property"] == prop and k["harness"] == h.name]
        unlisted = [c for c in bad if not any(k["check"] in c.get("description", "") for k in kn)]
        listed = [c for c in bad if c not in unlisted]
        for c in listed:
            k = [k for k in kn if k["check"] in c.get("description", "")][0]
            known_hits.append("KNOWN-FINDING: property=%s %s [harness %s, obligation %s]" % (prop, k["text"], h.name, c.get("description", "").replace("\n", " ")[:120]))
        if unlisted:
            r["verdict"] = "violation"
            violations.append((h, r, unlisted))
        else:
            r["verdict"] = "known-finding"

    verus = None
    if prop in VERUS_UNITS and not a.only:
        verus = run_verus(prop)
        log("[%s] verus: %s (%s verified, %s errors)" % (prop, verus.get("status"), verus.get("verified"), verus.get("errors")))
        if verus["status"] == "undecided":
            # The Verus run is a redundant second solver over a mechanically extracted subset.  If the current text
            # of `mod bits` is outside what the extractor / Verus accept (a `let` in a body, a renamed item), the
            # cross-check is skipped and says so; the verdict then rests on the Kani obligations alone.
            verus["status"] = "skipped"
            log("[%s] verus unit skipped: %s" % (prop, verus.get("why", "")[:300]))
    return finish(prop, tier, seed, t0, mine, results, undecided, violations, known_hits, hosts, assumptions,
                  all_contracts, runs, no_playback=a.no_playback, verus=verus)


def finish(prop, tier, seed, t0, mine, results, undecided, violations, known_hits, hosts, assumptions,
           all_contracts, runs=(), no_playback=False, verus=None):
    viol_lines = []
    if verus and verus.get("status") == "violation":
        rdir = os.path.join(VERIF, "replays", prop)
        os.makedirs(rdir, exist_ok=True)
        path = os.path.join(rdir, "verus_%s.json" % VERUS_UNITS[prop][1][:-7])
        json.dump({"property": prop, "back_end": verus.get("back_end"), "failed_obligations": verus.get("failed"),
                   "command": verus.get("cmd"), "extraction": verus.get("extraction"),
                   "verifier_output": verus.get("stderr"), "note": "Verus gives no counterexample (no-failing-input-found); the Kani obligations of this property give a replayable input where one exists within their bounds"},
                  open(path, "w"), indent=1)
        viol_lines.append("VIOLATION property=%s replay=%s no-failing-input-found" % (prop, path))
        log("  failed verus obligation(s): %s" % verus.get("failed"))
    for (h, r, bad) in violations:
        if no_playback:
            path, replayed = os.path.join(VERIF, "replays", prop, h.name + ".json"), False
            os.makedirs(os.path.dirname(path), exist_ok=True)
            json.dump({"property": prop, "harness": h.name, "failed_obligations":
                       [{"description": c.get("description"), "location": loc_of(c)} for c in bad]},
                      open(path, "w"), indent=1)
        else:
            log("[%s] obligation failed in %s: extracting counterexample and replaying natively ..." % (prop, h.name))
            path, replayed = playback(h, r, prop, tier)
        names = "; ".join(c.get("description", "").replace("\n", " ")[:100] for c in bad[:3])
        line = "VIOLATION property=%s replay=%s" % (prop, path)
        if not replayed:
            line += " no-failing-input-found"
        viol_lines.append(line)
        log("  failed obligation(s) in %s: %s" % (h.name, names))

    # evidence
    proof_obl = proof_dis = b_obl = b_dis = 0
    per = []
    solver_s = 0.0
    samples = []
    fns = set()
    for h in mine:
        r = results.get(getattr(h, "rkey", h.name))
        if not r:
            continue
        checks = [c for c in r["checks"] if not is_cover(c)]
        n = len(checks)
        ok = len([c for c in checks if c.get("status") in ("Success", "Unreachable")]) if r.get("verdict") in ("discharged", "known-finding", "violation", "failed") else 0
        if (h.expect_panic or h.expect_any) and r.get("verdict") == "discharged":
            ok = n
        st = r.get("stats") or {}
        s = float(st.get("runtime_decision_procedure_s") or 0) + float(st.get("runtime_symex_s") or 0)
        solver_s += s
        if h.kind == "proof":
            proof_obl += n
            proof_dis += ok
        elif h.kind == "bounded":
            b_obl += n
            b_dis += ok
        for f in h.fns:
            fns.add(f)
        per.append({"harness": getattr(h, "rkey", h.name), "features": h.features, "kind": h.kind, "form": h.form, "functions": h.fns, "bound": h.bound,
                    "verdict": r.get("verdict"), "checks": n, "by_class": r.get("class"),
                    "covers": len([c for c in r["checks"] if is_cover(c)]),
                    "cbmc_symex_plus_solver_s": round(s, 3), "wall_ms": r.get("duration_ms")})
        if len(samples) < 6:
            cs = [c for c in r["checks"] if c.get("category") == "assertion" and
                  ("verif" in str((c.get("location") or {}).get("file", "")) or c.get("description", "").startswith("|"))]
            for c in cs[:2]:
                samples.append({"harness": h.name, "obligation": c.get("description", "")[:300],
                                "at": loc_of(c), "status": c.get("status")})
    # the level is a property of the check as registered (all tiers), so that MANIFEST.level_claimed and every
    # evidence file agree: "proof" only if no harness of this property, in any tier, is a bounded stand-in
    try:
        all_mine = [h for h in scan_registry() if prop in h.props]
    except SystemExit:
        all_mine = mine
    level = "proof" if not any(h.kind == "bounded" for h in all_mine) and prop != "C02" else "other"
    contracts_here = [c for c in all_contracts]
    verus_note = ""
    if verus and verus.get("status") in ("ok", "violation"):
        v_ok = int(verus.get("verified") or 0)
        v_all = v_ok + int(verus.get("errors") or 0)
        verus_note = (" Verus unit (%s): %d of %d items verified, unbounded (loop invariants / bit-vector lemmas), on text "
                      "extracted mechanically from the real source on this run." % (verus.get("back_end"), v_ok, v_all))
        for f in VERUS_FNS.get(prop, []):
            fns.add(f)
        verus["assumptions"] = VERUS_ASSUMPTIONS.get(prop, [])
    cov = {
        "obligations": proof_obl,
        "discharged": proof_dis,
        "bounded_obligations": b_obl,
        "bounded_discharged": b_dis,
        "bounds": sorted({"%s: %s" % (h.name, h.bound) for h in mine if h.kind == "bounded" and h.bound}),
        "checker_cmd": "; ".join(r["cmd"] for r in runs) if runs else "cargo kani (not run)",
        "back_end": "Kani 0.68.0 -> CBMC 6.11.0 -> CaDiCaL (SAT); one CBMC property = one obligation (contract clause, harness assertion or generated safety check)",
        "trusted_base": ["Kani 0.68.0 MIR->goto translation", "CBMC 6.11.0", "CaDiCaL", "rustc nightly-2026-08-21 front end"],
        "functions_under_contract": sorted(fns),
        "in_place_contract_clauses": len(contracts_here),
        "in_place_contracts": contracts_here[:200],
        "harnesses": per,
        "solver_time_s": round(solver_s, 2),
        "kani_invocations": list(runs),
        "samples": samples or [{"note": "no sample available (run did not reach verification)"}],
        "explanation": ("kernel contracts: %d obligations proved for all inputs (loop-free, full symbolic domain) + %d bounded "
                        "stand-in obligations (bounds listed, never counted as proved). The check decides the listed kernel "
                        "functions only, not the property's whole-program quantifier." % (proof_dis, b_dis)) + verus_note,
        "undecided": undecided,
        "second_solver_verus": verus,
        "known_findings_hit": known_hits,
        "hooks": {os.path.relpath(k, VERIF): (os.path.relpath(v, REPO) if v else "external harness crate (public API, no hook)")
                  for k, v in hosts.items()},
    }
    ev = {
        "property_id": prop, "tier": tier, "seed": seed, "level": level, "coverage": cov,
        "assumptions": STANDING_ASSUMPTIONS + list(assumptions),
        "wall_s": round(time.time() - t0, 1),
        "violations": len(viol_lines),
    }
    # evidence/ only ever describes /repo itself; runs against a scratch copy (self-test, seeded changes)
    # write theirs under .cache/
    evdir = os.path.join(VERIF, "evidence") if os.path.realpath(REPO) == "/repo" else os.path.join(CACHE, "scratch-evidence")
    os.makedirs(evdir, exist_ok=True)
    with open(os.path.join(evdir, prop + ".json"), "w") as f:
        json.dump(ev, f, indent=1)

    for k in known_hits:
        print(k)
    for v in viol_lines:
        print(v)
    if viol_lines:
        print("%s: %d violation(s)" % (prop, len(viol_lines)))
        return 1
    if undecided:
        for u in undecided:
            log("UNDECIDED: " + u)
        print("%s: undecided (%d reasons), see stderr and %s/%s.json" % (prop, len(undecided), os.path.relpath(evdir, VERIF), prop))
        return 2
    print("%s: OK tier=%s proved=%d/%d bounded=%d/%d harnesses=%d solver=%.1fs wall=%.0fs" %
          (prop, tier, proof_dis, proof_obl, b_dis, b_obl, len(per), solver_s, time.time() - t0))
    return 0


def replay_file(path):
    meta = json.load(open(path))
    reg = {h.name: h for h in scan_registry()}
    h = reg.get(meta["harness"])
    if not h or not meta.get("concrete_playback_test"):
        log("replay file has no concrete test (no-failing-input-found); failed obligations: %s" %
            [o["description"] for o in meta.get("failed_obligations", [])])
        return 2
    env = dict(os.environ)
    env["CARGO_NET_OFFLINE"] = "true"
    failed, nat = native_replay(h, meta["concrete_playback_test"], env)
    print(json.dumps(nat, indent=1))
    if failed:
        print("VIOLATION property=%s replay=%s" % (meta["property"], path))
        return 1
    return 0


if __name__ == "__main__":
    sys.exit(main(sys.argv[1:]))
