#!/usr/bin/env python3
"""Mechanical extraction of `mod bits` from the REAL nan_boxed.rs into a Verus file: a second,
independent solver (Z3 bit-vectors instead of CBMC/SAT) for the C12 tag lemmas.

usage: extract.py <repo> <out.rs>

Kept: the initialiser text of every `const` of `mod bits` and the body text of
  is_bool is_float is_negative_zero is_integer32 is_bigint is_object is_symbol is_string
  tag_i32 untag_i32 tag_bool untag_bool untag_pointer.
Rewritten mechanically (nothing else):
  * constant initialisers are constant-folded (`MASK_NAN | TAG_INT32` -> its value) and constant names inside
    function bodies are replaced by those values, because Verus' `by (bit_vector)` mode accepts only literals,
    variables and bit operations;
  * `pub(super) const fn f(..) -> T { E }` becomes `pub open spec fn f(..) -> T { E }` (same expression text);
  * for every entry `f : SPEC` of bits.contract a lemma `f(v) == SPEC(v)` is generated whose proof is
    `assert(E[v] == SPEC[v]) by (bit_vector)`, E being the extracted body.
DROPPED (stated in the evidence): `tag_f64` (Verus has no f64 operations), `tag_pointer` (generic NonNull<T>,
  panicking branch), the initialiser of VALUE_NEGATIVE_ZERO `(-0f64).to_bits()` (replaced by the literal
  0x8000_0000_0000_0000; the Kani obligation c12_bits_constants proves the literal equals the real constant).
Exit code 2 if an expected item is missing (lost anchor) - never a verification verdict."""
import re, sys, os

KEEP_FNS = ["is_bool", "is_float", "is_negative_zero", "is_integer32", "is_bigint", "is_object", "is_symbol",
            "is_string", "tag_i32", "untag_i32", "tag_bool", "untag_bool", "untag_pointer"]


def block_after(src, start):
    i = src.index("{", start)
    depth, j = 0, i
    while True:
        if src[j] == "{":
            depth += 1
        elif src[j] == "}":
            depth -= 1
            if depth == 0:
                return src[i:j + 1], j + 1
        j += 1


def main(repo, out):
    path = repo + "/core/engine/src/value/inner/nan_boxed.rs"
    src = open(path).read()
    m = re.search(r"^mod bits \{", src, re.M)
    if not m:
        print("lost anchor: mod bits", file=sys.stderr)
        return 2
    body, _ = block_after(src, m.start())
    consts = re.findall(r"^\s*(?:pub\(super\)\s+)?const\s+([A-Z0-9_]+):\s*u64\s*=\s*([^;]+);", body, re.M)
    if len(consts) < 20:
        print("lost anchor: constants of mod bits (%d found)" % len(consts), file=sys.stderr)
        return 2
    vals, dropped = {}, []
    lines = ["use vstd::prelude::*;", "verus! {", "// --- extracted mechanically from %s (mod bits) ---" % path]
    for name, init in consts:
        init = " ".join(init.split())
        if "to_bits" in init:
            dropped.append("%s initialiser `%s` -> literal 0x8000_0000_0000_0000" % (name, init))
            v = 0x8000_0000_0000_0000
        else:
            expr = re.sub(r"\b([A-Z][A-Z0-9_]*)\b", lambda mm: str(vals[mm.group(1)]), init)
            if not re.fullmatch(r"[0-9a-fA-FxX_ |&()<>]+", expr):
                print("lost anchor: unexpected constant initialiser %s = %s" % (name, init), file=sys.stderr)
                return 2
            v = eval(expr.replace("_", "")) & 0xFFFF_FFFF_FFFF_FFFF
        vals[name] = v
        lines.append("pub const %s: u64 = 0x%016X; // = %s" % (name, v, init))

    def subst(text):
        return re.sub(r"\b([A-Z][A-Z0-9_]*)\b", lambda mm: ("0x%016Xu64" % vals[mm.group(1)]) if mm.group(1) in vals else mm.group(1), text)

    bodies, sigs = {}, {}
    for fn in KEEP_FNS:
        fm = re.search(r"const fn %s\((\w+):\s*(\w+)\)\s*->\s*([A-Za-z0-9_]+)\s*\{" % fn, body)
        if not fm:
            print("lost anchor: fn %s" % fn, file=sys.stderr)
            return 2
        blk, _ = block_after(body, fm.start())
        text = " ".join(l.strip() for l in blk.strip()[1:-1].split("\n") if not l.strip().startswith("//"))
        text = subst(text)
        arg, aty, rty = fm.group(1), fm.group(2), fm.group(3)
        bodies[fn] = (arg, text)
        sigs[fn] = (aty, rty)
        lines.append("pub open spec fn %s(%s: %s) -> %s { %s }" % (fn, arg, aty, rty, text))

    def inst(fn, var):
        arg, text = bodies[fn]
        return "(" + re.sub(r"\b%s\b" % arg, var, text) + ")"

    lines.append("// --- generated lemmas: extracted body == layout-table specification (verus/bits.contract) ---")
    n = 0
    contract = open(os.path.join(os.path.dirname(os.path.abspath(__file__)), "bits.contract")).read()
    for l in contract.split("\n"):
        l = l.strip()
        if not l or l.startswith("#"):
            continue
        kind, rest = l.split(None, 1)
        if kind == "equiv":      # equiv <fn> : <spec expression over v>
            fn, spec = [x.strip() for x in rest.split(":", 1)]
            aty = sigs[fn][0]
            lines.append("proof fn lemma_%s(v: %s) ensures %s(v) == (%s) { assert(%s == (%s)) by (bit_vector); }"
                         % (fn, aty, fn, spec, inst(fn, "v"), spec))
        elif kind == "fact":     # fact <name> (<var>: <type>) [requires R] : <expr with f{x} meaning f applied to x>
            mm = re.match(r"(\w+)\s*\((\w+):\s*(\w+)\)\s*(?:requires\s+(.*?))?\s*:\s*(.*)", rest)
            name, var, ty, req, expr = mm.groups()
            def expand(e):
                # innermost-first expansion of f{..}
                while True:
                    m2 = re.search(r"(\w+)\{([^{}]*)\}", e)
                    if not m2:
                        return e
                    e = e[:m2.start()] + inst(m2.group(1), "(" + m2.group(2) + ")") + e[m2.end():]
            call = re.sub(r"(\w+)\{", r"\1(", expr).replace("}", ")")
            lines.append("proof fn fact_%s(%s: %s) %s ensures %s { assert(%s) by (bit_vector) %s; }"
                         % (name, var, ty, ("requires " + req) if req else "", call, expand(expr),
                            ("requires " + req) if req else ""))
        n += 1
    lines.append("} // verus!\nfn main() {}")
    open(out, "w").write("\n".join(lines) + "\n")
    print("extracted %d constants, %d functions, %d lemmas; dropped: tag_f64, tag_pointer; %s"
          % (len(consts), len(bodies), n, "; ".join(dropped)))
    return 0


if __name__ == "__main__":
    sys.exit(main(sys.argv[1], sys.argv[2]))
