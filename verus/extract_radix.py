#!/usr/bin/env python3
"""Mechanical extraction of the exact-integer (u64) path of `from_js_str_radix` (parseInt's digit accumulation,
core/engine/src/builtins/number/globals.rs) into a Verus file, annotated with contracts and ghost code: an UNBOUNDED
proof (all lengths the guard admits, all radices 2..=36, all bytes) where the Kani obligations of C13 stop at 3 / 5 digits.

usage: extract_radix.py <repo> <out.rs>

Kept verbatim from the real file on every run (executable text unchanged):
  * nested `fn can_not_overflow(radix: u8, digits_len: usize) -> bool { .. }`   (whole body)
  * nested `const fn to_digit(input: u8, radix: u8) -> Option<u8> { .. }`       (whole body)
  * the guard expression of `let result = if <GUARD> {`                           (inside `guarded_u64_path`)
  * the initialiser `let mut result = 0;` (also `0u64` / `: u64`) and every statement of the body of the first `for c in src { .. }`
Rewritten mechanically (nothing else):
  * `-> T` in the two signatures becomes `-> (r: T)` followed by the contract from this file;
  * `debug_assert!(C, "msg")` becomes the proof obligation `assert(C);` (so "the debug assertion cannot fire" is proved);
  * ghost `proof { .. }` blocks are inserted at three anchors (top of `can_not_overflow`, before the statement that
    contains `input | 0b10_0000`, before the first extracted loop statement); they contain lemma calls only;
  * the iteration frame: `for c in src` over `src.iter().map(|x| u8::try_from(x).expect(..))` becomes an indexed
    `while i < src.len()` over `src: &Vec<u8>` with `let c = src[i];` (Verus has no iterator adapters / closures in
    `map`); the loop invariant is attached to that frame.
DROPPED (stated in the evidence, covered only by the Kani obligations c13_*): the `JsStr` iterator and the
  u16 -> u8 `try_from(..).expect("should be ascii string")`, the final `result as f64` rounding, the whole f64
  accumulation branch, `Some(result)` wrapping of the f64.
Exit code 2 if an expected item is missing (lost anchor) - never a verification verdict."""
import re, sys


def block_after(src, start):
    i = src.index("{", start)
    depth, j = 0, i
    while True:
        if src[j] == "{":
            depth += 1
        elif src[j] == "}":
            depth -= 1
            if depth == 0:
                return src[i:j + 1], j + 1
        j += 1


def strip_comments(text):
    return "\n".join(l for l in text.split("\n") if not l.strip().startswith("//"))


def lost(what):
    print("lost anchor: " + what, file=sys.stderr)
    return 2


PRELUDE = r"""use vstd::prelude::*;
use vstd::arithmetic::power::*;
verus! {
// ---------------------------------------------------------------- specification (independent of the code)
// ECMAScript parseInt step 11-13: the mathematical integer value of a digit string in the given radix.
pub open spec fn s_digit(input: u8, radix: u8) -> Option<u8> {
    let d: int = if 0x30 <= input <= 0x39 { input - 0x30 }
        else if 0x61 <= input <= 0x7a { input - 0x61 + 10 }
        else if 0x41 <= input <= 0x5a { input - 0x41 + 10 }
        else { 255 };
    if d < radix { Some(d as u8) } else { None }
}
pub open spec fn s_value(s: Seq<u8>, radix: u8) -> Option<int>
    decreases s.len()
{
    if s.len() == 0 { Some(0int) } else {
        match s_value(s.drop_last(), radix) {
            None => None,
            Some(v) => match s_digit(s.last(), radix) {
                None => None,
                Some(d) => Some(v * (radix as int) + d as int),
            }
        }
    }
}
pub open spec fn two64() -> int { 0x1_0000_0000_0000_0000 }

// ---------------------------------------------------------------- lemmas (ghost)
proof fn lemma_or20(x: u8)
    ensures (0x41 <= x <= 0x5a ==> (x | 0x20) == x + 0x20),
            (0x61 <= x <= 0x7a ==> (x | 0x20) == x),
            (!(0x41 <= x <= 0x5a) && !(0x61 <= x <= 0x7a) ==> !(0x61 <= (x | 0x20) <= 0x7a)),
            (x | 0x20) >= x,
{
    assert((0x41 <= x <= 0x5a ==> (x | 0x20) == x + 0x20) &&
           (0x61 <= x <= 0x7a ==> (x | 0x20) == x) &&
           (!(0x41 <= x <= 0x5a) && !(0x61 <= x <= 0x7a) ==> !(0x61 <= (x | 0x20) <= 0x7a)) && (x | 0x20) >= x) by (bit_vector);
}
proof fn lemma_pow_base_mono(a: int, b: int, e: nat)
    requires 0 < a <= b
    ensures 0 < pow(a, e) <= pow(b, e)
    decreases e
{
    reveal(pow);
    if e > 0 {
        lemma_pow_base_mono(a, b, (e - 1) as nat);
        assert(a * pow(a, (e - 1) as nat) <= b * pow(b, (e - 1) as nat)) by (nonlinear_arith)
            requires 0 < a <= b, 0 < pow(a, (e - 1) as nat) <= pow(b, (e - 1) as nat);
        assert(0 < a * pow(a, (e - 1) as nat)) by (nonlinear_arith) requires 0 < a, 0 < pow(a, (e - 1) as nat);
    }
}
proof fn lemma_pow_le(r: int, i: nat, rmax: int, imax: nat)
    requires 1 <= r <= rmax, i <= imax
    ensures pow(r, i) <= pow(rmax, imax)
{
    lemma_pow_increases(rmax as nat, i, imax);
    lemma_pow_base_mono(r, rmax, i);
}
// radix^len <= 2^64 for the (radix, length) boxes a sound guard can be built from
proof fn lemma_pow16(r: int, i: nat)
    requires 1 <= r, (r <= 2 && i <= 64) || (r <= 4 && i <= 32) || (r <= 10 && i <= 19) || (r <= 16 && i <= 16) || (r <= 36 && i <= 12)
    ensures pow(r, i) <= two64()
{
    if r <= 2 && i <= 64 { lemma_pow_le(r, i, 2, 64); assert(pow(2, 64) <= 0x1_0000_0000_0000_0000) by (compute); }
    else if r <= 4 && i <= 32 { lemma_pow_le(r, i, 4, 32); assert(pow(4, 32) <= 0x1_0000_0000_0000_0000) by (compute); }
    else if r <= 10 && i <= 19 { lemma_pow_le(r, i, 10, 19); assert(pow(10, 19) <= 0x1_0000_0000_0000_0000) by (compute); }
    else if r <= 16 && i <= 16 { lemma_pow_le(r, i, 16, 16); assert(pow(16, 16) <= 0x1_0000_0000_0000_0000) by (compute); }
    else { lemma_pow_le(r, i, 36, 12); assert(pow(36, 12) <= 0x1_0000_0000_0000_0000) by (compute); }
}
proof fn lemma_prefix_none(s: Seq<u8>, k: int, radix: u8)
    requires 0 <= k <= s.len()
    ensures s_value(s.take(k), radix).is_none() ==> s_value(s, radix).is_none()
    decreases s.len()
{
    if k < s.len() {
        assert(s.drop_last().take(k) == s.take(k));
        lemma_prefix_none(s.drop_last(), k, radix);
    } else {
        assert(s.take(k) == s);
    }
}
proof fn lemma_step(v: int, r: int, i: nat, n: nat)
    requires 2 <= r, i < n, 0 <= v < pow(r, i), pow(r, n) <= two64()
    ensures 0 <= v * r < two64(), r * v == v * r,
            forall|d: int| 0 <= d < r ==> #[trigger] (v * r + d) < pow(r, i + 1) && v * r + d < two64() && v * r <= v * r + d,
{
    lemma_pow_increases(r as nat, i + 1, n);
    reveal(pow);
    assert(pow(r, i + 1) == r * pow(r, i));
    assert((v + 1) * r <= pow(r, i) * r) by (nonlinear_arith) requires v + 1 <= pow(r, i), r > 0;
    assert((v + 1) * r == v * r + r) by (nonlinear_arith);
    assert(pow(r, i) * r == r * pow(r, i)) by (nonlinear_arith);
    assert(0 <= v * r) by (nonlinear_arith) requires 0 <= v, 0 < r;
    assert(r * v == v * r) by (nonlinear_arith);
}
"""

CONTRACT_CNO = """
    ensures r && radix >= 1 ==> pow(radix as int, digits_len as nat) <= two64()   // the guard's meaning: radix^len fits u64
"""
HINT_CNO = ("    proof { let ghost (r, i) = (radix as int, digits_len as nat);\n"
            "            if 1 <= r && ((r <= 2 && i <= 64) || (r <= 4 && i <= 32) || (r <= 10 && i <= 19) || (r <= 16 && i <= 16) || (r <= 36 && i <= 12)) { lemma_pow16(r, i); } }\n")
CONTRACT_TD = """
    requires 2 <= radix <= 36
    ensures r == s_digit(input, radix)
"""
HINT_TD = "proof { lemma_or20(input); }\n        "

FRAME = """
// the extracted loop of the `if %(guard)s` branch; iteration frame rewritten (see header)
fn u64_accumulate(src: &Vec<u8>, radix: u8) -> (r: Option<u64>)
    requires 2 <= radix <= 36, pow(radix as int, src.len() as nat) <= two64()
    ensures match s_value(src@, radix) {
                None => r.is_none(),                                  // NaN exactly when some unit is not a digit
                Some(v) => 0 <= v < two64() && r == Some(v as u64),   // otherwise the exact integer, no wrap-around
            }
{
    %(init)s
    let mut i: usize = 0;
    proof { reveal(pow); assert(pow(radix as int, 0) == 1); assert(src@.take(0).len() == 0); }
    while i < src.len()
        invariant i <= src.len(), 2 <= radix <= 36, pow(radix as int, src.len() as nat) <= two64(),
            s_value(src@.take(i as int), radix) == Some(result as int),
            result < pow(radix as int, i as nat),
        decreases src.len() - i
    {
        let c = src[i];
        proof {
            let ghost p = src@.take(i as int + 1);
            assert(p.drop_last() == src@.take(i as int));
            assert(p.last() == c);
            lemma_step(result as int, radix as int, i as nat, src.len() as nat);
            lemma_prefix_none(src@, i as int + 1, radix);
        }
        %(stmts)s
        i += 1;
    }
    proof { assert(src@.take(i as int) == src@); }
    Some(result)
}

// the real guard expression, verbatim: whenever it lets the u64 branch run, the branch's precondition holds
fn guarded_u64_path(src: &Vec<u8>, radix: u8) -> (r: Option<Option<u64>>)
    requires 2 <= radix <= 36
    ensures r.is_some() ==> match s_value(src@, radix) {
                None => r.unwrap().is_none(),
                Some(v) => 0 <= v < two64() && r.unwrap() == Some(v as u64),
            }
{
    if %(guard)s { Some(u64_accumulate(src, radix)) } else { None }
}

// vacuity guards: the contracts above are satisfiable and say something
proof fn fact_spec_examples()
    ensures s_digit(0x37, 8) == Some(7u8), s_digit(0x38, 8).is_none(), s_digit(0x7a, 36) == Some(35u8),
            s_digit(0x46, 16) == Some(15u8), s_digit(0x2f, 10).is_none(), s_digit(0x3a, 16).is_none(),
            s_digit(0x40, 36).is_none(), s_digit(0x5b, 36).is_none(), s_digit(0x60, 36).is_none(), s_digit(0x7b, 36).is_none(),
{
}
proof fn fact_value_ff()
    ensures s_value(seq![0x66u8, 0x46u8], 16) == Some(255int), s_value(seq![0x31u8, 0x67u8], 16).is_none(),
{
    let s = seq![0x66u8, 0x46u8];
    assert(s.drop_last() =~= seq![0x66u8]);
    assert(s.drop_last().drop_last() =~= Seq::<u8>::empty());
    assert(s_value(s.drop_last().drop_last(), 16) == Some(0int));
    assert(s_value(s.drop_last(), 16) == Some(15int));
    let t = seq![0x31u8, 0x67u8];
    assert(t.last() == 0x67u8);
}
} // verus!
fn main() {}
"""


def main(repo, out):
    path = repo + "/core/engine/src/builtins/number/globals.rs"
    src = open(path).read()
    m = re.search(r"^fn from_js_str_radix\(src: JsStr<'_>, radix: u8\) -> Option<f64> \{", src, re.M)
    if not m:
        return lost("fn from_js_str_radix(src: JsStr<'_>, radix: u8) -> Option<f64>")
    body, _ = block_after(src, m.start())

    # --- can_not_overflow
    m1 = re.search(r"fn can_not_overflow\(radix: u8, digits_len: usize\) -> bool \{", body)
    if not m1:
        return lost("fn can_not_overflow(radix: u8, digits_len: usize) -> bool")
    b1, _ = block_after(body, m1.start())
    cno = "fn can_not_overflow(radix: u8, digits_len: usize) -> (r: bool)" + CONTRACT_CNO + "{\n" + HINT_CNO + \
          strip_comments(b1.strip()[1:-1]).strip("\n") + "\n}\n"

    # --- to_digit
    m2 = re.search(r"const fn to_digit\(input: u8, radix: u8\) -> Option<u8> \{", body)
    if not m2:
        return lost("const fn to_digit(input: u8, radix: u8) -> Option<u8>")
    b2, _ = block_after(body, m2.start())
    td_body = strip_comments(b2.strip()[1:-1]).strip("\n")
    td_body, n_da = re.subn(r"debug_assert!\((.*?),\s*\"[^\"]*\"\s*\);", r"assert(\1);", td_body, flags=re.S)
    anchor = re.search(r"^[ \t]*(?=[^\n]*input \| 0b10_0000)", td_body, re.M)
    if not anchor:
        return lost("statement containing `input | 0b10_0000` in to_digit")
    td_body = td_body[:anchor.end()] + HINT_TD + td_body[anchor.end():]
    td = "const fn to_digit(input: u8, radix: u8) -> (r: Option<u8>)" + CONTRACT_TD + "{\n" + td_body + "\n}\n"

    # --- the u64 branch
    body = strip_comments(body)
    m3 = re.search(r"let result = if ([^{}]+?) \{\s*(let mut result(?:: u64)? = 0(?:u64|_u64)?;)\s*for c in src \{", body, re.S)
    if not m3:
        return lost("`let result = if <guard> { let mut result = 0; for c in src {`")
    guard, init = " ".join(m3.group(1).split()), m3.group(2)
    loop_blk, after = block_after(body, m3.end() - 1)
    stmts = strip_comments(loop_blk.strip()[1:-1]).strip()
    tail = body[after:after + 80]
    if not re.match(r"\s*result as f64\s*\}", tail):
        return lost("`result as f64` directly after the u64 loop")
    if "u64" not in stmts:
        return lost("u64 arithmetic in the first loop (branch order changed?)")
    if "src.len()" not in guard:
        return lost("guard over src.len()")

    text = PRELUDE + "\n// ---------------------------------------------------------------- extracted from %s\n" % path + \
        cno + "\n" + td + FRAME % {"guard": guard, "init": init, "stmts": stmts}
    open(out, "w").write(text)
    print("extracted from_js_str_radix: can_not_overflow, to_digit (%d debug_assert -> proof obligation), guard `%s`, "
          "u64 loop body `%s`; dropped: JsStr iterator + u16->u8 try_from/expect, `result as f64`, the f64 branch"
          % (n_da, guard, " ".join(stmts.split())))
    return 0


if __name__ == "__main__":
    sys.exit(main(sys.argv[1], sys.argv[2]))
