#!/usr/bin/env python3
"""Mechanical extraction of `compute_batch_offsets` (core/engine/src/builtins/array_buffer/utils.rs) into a Verus file:
second, independent solver (Z3 linear integer arithmetic instead of CBMC/SAT bit-blasting) for the partition contract
that every batched ArrayBuffer copy loop relies on, plus lemmas that derive the loops' in-bounds / alignment obligations
from that contract alone (modular: the loops see only the contract).

usage: extract_batch.py <repo> <out.rs>

Kept verbatim: the whole body of `fn compute_batch_offsets(ptr_addr: usize, count: usize) -> (usize, usize, usize)`.
Rewritten mechanically (nothing else):
  * `const BATCH_SIZE: usize = size_of::<u64>();` becomes `const BATCH_SIZE: usize = 8;` (Verus cannot call size_of in a
    const initialiser); any other initialiser text is a lost anchor.  The Kani obligation c15_batch_offsets_partition
    proves the same contract with the real constant.
  * `-> (usize, usize, usize)` becomes `-> (r: (usize, usize, usize))` followed by the contract from this file.
DROPPED: everything else in utils.rs (the copy loops themselves use raw pointers and atomics; Kani checks them, bounded).
Exit code 2 if an expected item is missing (lost anchor) - never a verification verdict."""
import re, sys


def block_after(src, start):
    i = src.index("{", start)
    depth, j = 0, i
    while True:
        if src[j] == "{":
            depth += 1
        elif src[j] == "}":
            depth -= 1
            if depth == 0:
                return src[i:j + 1], j + 1
        j += 1


TEMPLATE = r"""use vstd::prelude::*;
verus! {
// specification (independent of the code): (head, chunks, tail) tiles 0..count and the word phase is 8-byte aligned
pub open spec fn s_partition(a: int, n: int, h: int, c: int, t: int) -> bool {
    h + 8 * c + t == n && 0 <= h < 8 && 0 <= t < 8 && 0 <= c
    && (c == 0 || (a + h) %% 8 == 0)
    && (h == n || (a + h) %% 8 == 0)
    && (a %% 8 != 0 || h == 0)
}

// --- extracted from %(path)s
const BATCH_SIZE: usize = 8; // = %(init)s
fn compute_batch_offsets(ptr_addr: usize, count: usize) -> (r: (usize, usize, usize))
    requires ptr_addr + count <= usize::MAX
    ensures s_partition(ptr_addr as int, count as int, r.0 as int, r.1 as int, r.2 as int)
%(body)s

// --- what the copy loops need, derived from the contract only
proof fn lemma_phase1_in_bounds(a: int, n: int, h: int, c: int, t: int, i: int)
    requires s_partition(a, n, h, c, t), 0 <= a, 0 <= n, 0 <= i < h
    ensures i < n                                                                        // head bytes stay inside count
{
}
proof fn lemma_phase2_words_inside_and_aligned(a: int, n: int, h: int, c: int, t: int, i: int)
    requires s_partition(a, n, h, c, t), 0 <= a, 0 <= n, 0 <= i < c
    ensures h + 8 * i + 8 <= n, (a + h + 8 * i) %% 8 == 0                                 // whole aligned words inside count
{
}
proof fn lemma_phase3_in_bounds_and_total(a: int, n: int, h: int, c: int, t: int, i: int)
    requires s_partition(a, n, h, c, t), 0 <= a, 0 <= n, 0 <= i < t
    ensures h + 8 * c + i < n, h + 8 * c + t == n                                        // tail inside; phases cover everything
{
}
proof fn lemma_same_misalignment_aligns_source(a: int, s: int, h: int)
    requires 0 <= a, 0 <= s, 0 <= h, a %% 8 == s %% 8, (a + h) %% 8 == 0
    ensures (s + h) %% 8 == 0                                                             // the source word pointer is aligned too
{
}
proof fn fact_examples()
    ensures s_partition(3, 2, 2, 0, 0), s_partition(5, 100, 3, 12, 1), s_partition(16, 7, 0, 0, 7),
            !s_partition(5, 100, 5, 11, 7), !s_partition(5, 100, 0, 12, 4),
{
}
} // verus!
fn main() {}
"""


def main(repo, out):
    path = repo + "/core/engine/src/builtins/array_buffer/utils.rs"
    src = open(path).read()
    mc = re.search(r"^const BATCH_SIZE: usize = ([^;]+);", src, re.M)
    if not mc or " ".join(mc.group(1).split()) != "size_of::<u64>()":
        print("lost anchor: const BATCH_SIZE: usize = size_of::<u64>();", file=sys.stderr)
        return 2
    m = re.search(r"^fn compute_batch_offsets\(ptr_addr: usize, count: usize\) -> \(usize, usize, usize\) \{", src, re.M)
    if not m:
        print("lost anchor: fn compute_batch_offsets(ptr_addr: usize, count: usize) -> (usize, usize, usize)", file=sys.stderr)
        return 2
    body, _ = block_after(src, m.start())
    open(out, "w").write(TEMPLATE % {"path": path, "init": mc.group(1), "body": body})
    print("extracted compute_batch_offsets (body verbatim), BATCH_SIZE folded to 8; dropped: the copy loops (raw pointers, atomics)")
    return 0


if __name__ == "__main__":
    sys.exit(main(sys.argv[1], sys.argv[2]))
