#![allow(unused_crate_dependencies, missing_docs)]
//! C12 finding: under `--features jsvalue-enum` a NaN with a payload keeps its payload inside a JsValue
//! (EnumBasedValue::float64 does not canonicalise although its doc comment says it does), and the payload
//! is observable: SameValueZero-keyed collections hash `to_bits()`, and typed-array stores write the
//! payload back.  The NaN-boxed build canonicalises.  Drop into core/engine/tests/ and run with and
//! without `--features jsvalue-enum`.
use boa_engine::{Context, JsValue, Source};

#[test]
fn nan_payload_is_canonicalised_in_jsvalue() {
    let v = JsValue::new(f64::from_bits(0x7FF8_0000_0000_0001));
    assert_eq!(v.as_number().map(f64::to_bits), Some(0x7FF8_0000_0000_0000), "NaN payload kept");
}

#[test]
fn nan_payload_is_not_observable() {
    let context = &mut Context::default();
    let src = r#"
        const u = new BigUint64Array(2);
        const f = new Float64Array(u.buffer);
        u[0] = 0x7FF8000000000001n;
        const x = f[0];
        f[1] = x;
        [new Set([NaN, x]).size, u[1].toString(16), new Map([[NaN, 1], [x, 2]]).size].join(",")
    "#;
    let got = context.eval(Source::from_bytes(src)).unwrap().to_string(context).unwrap().to_std_string_escaped();
    println!("trace: {got}");
    assert_eq!(got, "1,7ff8000000000000,1");
}
