#![allow(unused_crate_dependencies, missing_docs)]
//! Demonstrations of the genuine defects found by the /verif checks and repaired by `fix:` commits.
//! Drop into core/engine/tests/ : every test FAILS (or panics) on the pinned commit and passes after the fixes.
use boa_engine::{Context, JsValue, Source};

fn eval(src: &str) -> String {
    let context = &mut Context::default();
    context.eval(Source::from_bytes(src)).unwrap().to_string(context).unwrap().to_std_string_escaped()
}

#[test]
fn c01_rem_int_min_by_minus_one() {
    // panicked: attempt to calculate the remainder with overflow
    assert_eq!(eval("Object.is(-2147483648 % -1, -0)"), "true");
    let context = &mut Context::default();
    let r = JsValue::new(i32::MIN).rem(&JsValue::new(-1), context).unwrap();
    assert!(r.as_number().is_some_and(|n| n == 0.0 && n.is_sign_negative()));
}

#[test]
fn c01_zero_divided_by_negative_int() {
    assert_eq!(eval("[Object.is(0 / -5, -0), 1 / (0 / -5)].join()"), "true,-Infinity");
    let context = &mut Context::default();
    let r = JsValue::new(0).div(&JsValue::new(-5), context).unwrap();
    assert!(r.as_number().is_some_and(|n| n == 0.0 && n.is_sign_negative()));
}

#[test]
fn c15_to_uint8_of_huge_double() {
    assert_eq!(eval("[new Uint8Array([2**96])[0], new Int8Array([-(2**70)])[0], new Uint16Array([2**64])[0]].join()"), "0,0,0");
}

#[test]
fn c15_typed_array_from_typed_array_wraps() {
    assert_eq!(eval("new Int8Array(new Uint8Array([239]))[0]"), "-17");
    assert_eq!(eval("Array.from(new Uint8ClampedArray(new Float64Array([0.5, 1.5, 2.5]))).join()"), "0,2,2");
    assert_eq!(eval("new Uint8Array(new Int16Array([-1, 256]))[0]"), "255");
}
