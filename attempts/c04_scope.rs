//! C04 kernel: the escape bookkeeping that decides whether a binding may live in a frame register
//! (`Scope::{new_global,new,create_mutable_binding,create_immutable_binding,access_binding,
//! escape_all_bindings,get_identifier_reference,reorder_binding_indices,num_bindings_non_local,
//! all_bindings_local}`, `IdentifierReference::local`, boa_ast::scope).
//!
//! Pulled in by `#[cfg(kani)] #[path = "/verif/kani/ast/scope.rs"] mod verif_kani;`
//! in /repo/core/ast/src/scope.rs.
//!
//! Reference definition (from the property: "a binding may live in a register only if no other function,
//! eval or with can reach it"): an access to `name` from scope `sk` resolves to the nearest enclosing
//! scope `sd` that declares `name`.  The binding must be marked ESCAPES if the access is made under
//! eval/with, or if some scope on the way from `sk` up to (not including) `sd` is a function scope (the
//! access comes from another function).  Global bindings always escape.  No other binding is touched.

// ASSUME-FILE[assume]: bounds the symbolic scenario (chain depth, declared names) - see BOUND lines.
// ASSUME-FILE[unwind]: loops over a scope chain of at most 3 scopes with at most 2 bindings each, and the string
//   comparison loops over the static names "" and "length" (at most 6 bytes).

use super::*;
use boa_string::StaticJsStrings;

fn name(k: bool) -> JsString {
    // two distinct statically allocated names (no heap string can be built under Kani, DESIGN.md section 1)
    if k { StaticJsStrings::LENGTH } else { StaticJsStrings::EMPTY_STRING }
}

fn flags_of(s: &Scope, n: &JsString) -> Option<u8> {
    s.inner.bindings.borrow().iter().find(|b| &b.name == n).map(|b| b.flags.bits())
}

const ESCAPES: u8 = 1 << 3;
const ACCESSED: u8 = 1 << 4;

/// Declares (symbolically) neither, one or both names in `s`.
fn declare_some(s: &Scope) -> (bool, bool) {
    let (da, db): (bool, bool) = (kani::any(), kani::any());
    if da {
        if kani::any() {
            let _ = s.create_mutable_binding(name(true), kani::any());
        } else {
            s.create_immutable_binding(name(true), kani::any());
        }
    }
    if db {
        let _ = s.create_mutable_binding(name(false), kani::any());
    }
    (da, db)
}

// BOUND: scope chain global -> s1 -> s2 (function flags symbolic), at most 2 names per scope, one access
// FN: Scope::access_binding, Scope::new, Scope::new_global, Scope::create_mutable_binding, Scope::create_immutable_binding
#[kani::proof]
#[kani::unwind(9)]
fn c04_access_binding_marks_exactly_the_escaping_binding() {
    let g = Scope::new_global();
    let (f1, f2): (bool, bool) = (kani::any(), kani::any());
    let s1 = Scope::new(g.clone(), f1);
    let s2 = Scope::new(s1.clone(), f2);
    let scopes = [&g, &s1, &s2];
    let func = [true, f1, f2];
    let decl = [declare_some(&g), declare_some(&s1), declare_some(&s2)];
    // snapshot
    let before: [[Option<u8>; 2]; 3] = [
        [flags_of(&g, &name(true)), flags_of(&g, &name(false))],
        [flags_of(&s1, &name(true)), flags_of(&s1, &name(false))],
        [flags_of(&s2, &name(true)), flags_of(&s2, &name(false))],
    ];
    // global bindings escape from the start, others do not
    assert!(before[0][0].is_none_or(|f| f & ESCAPES != 0));
    assert!(before[1][0].is_none_or(|f| f & ESCAPES == 0) && before[2][1].is_none_or(|f| f & ESCAPES == 0));

    let which: bool = kani::any();
    let from: usize = kani::any();
    kani::assume(from < 3);
    let eval_or_with: bool = kani::any();
    scopes[from].access_binding(&name(which), eval_or_with);

    // reference definition
    let col = if which { 0 } else { 1 };
    let declares = |i: usize| if which { decl[i].0 } else { decl[i].1 };
    let mut sd: Option<usize> = None;
    let mut crossed = false;
    let mut i = from as isize;
    while i >= 0 {
        if declares(i as usize) {
            sd = Some(i as usize);
            break;
        }
        if func[i as usize] {
            crossed = true;
        }
        i -= 1;
    }
    kani::cover!(sd == Some(1) && from == 2 && crossed && !eval_or_with);
    kani::cover!(sd == Some(1) && from == 2 && !crossed && !eval_or_with);
    kani::cover!(sd == Some(0) && from == 2);
    kani::cover!(sd.is_none());
    let after: [[Option<u8>; 2]; 3] = [
        [flags_of(&g, &name(true)), flags_of(&g, &name(false))],
        [flags_of(&s1, &name(true)), flags_of(&s1, &name(false))],
        [flags_of(&s2, &name(true)), flags_of(&s2, &name(false))],
    ];
    let (a, b): (usize, usize) = (kani::any(), kani::any());
    kani::assume(a < 3 && b < 2);
    if sd == Some(a) && b == col {
        let (Some(o), Some(n)) = (before[a][b], after[a][b]) else { panic!("resolved binding vanished") };
        let must_escape = eval_or_with || crossed;
        assert!(n == o | ACCESSED | if must_escape { ESCAPES } else { 0 });
    } else {
        assert!(after[a][b] == before[a][b]); // frame: nothing else changes
    }
}

// BOUND: one scope below the global scope with at most 2 names; one access from a nested scope
// FN: Scope::get_identifier_reference, IdentifierReference::local, Scope::get_binding_reference, Scope::escape_all_bindings, Scope::all_bindings_local
#[kani::proof]
#[kani::unwind(9)]
fn c04_local_iff_not_escaping() {
    let g = Scope::new_global();
    let s1 = Scope::new(g.clone(), true);
    let inner_is_function: bool = kani::any();
    let s2 = Scope::new(s1.clone(), inner_is_function);
    let _ = s1.create_mutable_binding(name(true), false);
    let _ = g.create_mutable_binding(name(false), true);
    assert!(s1.all_bindings_local());
    // resolved from the nested scope
    let r = s2.get_identifier_reference(name(true));
    assert!(r.local() && !r.is_global_object());
    // a global binding and an unbound name are never register-allocated
    assert!(!s2.get_identifier_reference(name(false)).local());
    let eval_or_with: bool = kani::any();
    s2.access_binding(&name(true), eval_or_with);
    let must_escape = eval_or_with || inner_is_function;
    kani::cover!(must_escape);
    kani::cover!(!must_escape);
    let r = s2.get_identifier_reference(name(true));
    assert!(r.local() == !must_escape);
    assert!(s1.all_bindings_local() == !must_escape);
    assert!(s1.get_binding_reference(&name(true)).is_some_and(|x| x.local() == !must_escape));
    // the conservative choice: everything in an environment
    s1.escape_all_bindings();
    assert!(!s1.get_identifier_reference(name(true)).local() && !s1.all_bindings_local());
    assert!(s1.num_bindings_non_local() == 1);
}

/// After `reorder_binding_indices` the escaping bindings are numbered 0..k-1 in declaration order
/// (k = num_bindings_non_local: the size of the runtime environment), so every binding operand of an
/// environment access is inside its table; locals get index 0 and are never looked up by index.
// BOUND: one scope with exactly 2 bindings, escape flags symbolic
// FN: Scope::reorder_binding_indices, Scope::num_bindings_non_local, Scope::num_bindings
#[kani::proof]
#[kani::unwind(9)]
fn c04_reorder_binding_indices() {
    let g = Scope::new_global();
    let s = Scope::new(g, true);
    let _ = s.create_mutable_binding(name(true), true);
    let _ = s.create_mutable_binding(name(false), true);
    let nested = Scope::new(s.clone(), true);
    let (ea, eb): (bool, bool) = (kani::any(), kani::any());
    if ea {
        nested.access_binding(&name(true), false);
    }
    if eb {
        nested.access_binding(&name(false), false);
    }
    kani::cover!(ea && eb);
    kani::cover!(!ea && eb);
    s.reorder_binding_indices();
    let k = s.num_bindings_non_local();
    assert!(s.num_bindings() == 2);
    assert!(k == ea as u32 + eb as u32);
    let ia = s.get_identifier_reference(name(true)).locator().binding_index();
    let ib = s.get_identifier_reference(name(false)).locator().binding_index();
    if ea {
        assert!(ia == 0);
    }
    if eb {
        assert!(ib == if ea { 1 } else { 0 } && ib < k);
    }
    if ea && eb {
        assert!(ia != ib);
    }
}

#[kani::proof]
#[kani::unwind(9)]
fn c04_canary_must_fail() {
    let g = Scope::new_global();
    let _ = declare_some(&g);
    assert!(false, "canary");
}

#[cfg(verif_replay)]
include!("/verif/.cache/playback/scope.rs");

// BOUND: chain global -> s1 -> s2 with symbolic function flags; ONE binding declared in s1; one access from s2
// FN: Scope::access_binding, Scope::get_identifier_reference, IdentifierReference::local
#[kani::proof]
#[kani::unwind(9)]
fn c04_min_access_one_binding() {
    let g = Scope::new_global();
    let (f1, f2): (bool, bool) = (kani::any(), kani::any());
    let s1 = Scope::new(g.clone(), f1);
    let s2 = Scope::new(s1.clone(), f2);
    let l = s1.create_mutable_binding(name(true), false);
    let before = s1.inner.bindings.borrow()[0].flags.bits();
    assert!(before & ESCAPES == 0 && before & ACCESSED == 0);
    let eval_or_with: bool = kani::any();
    s2.access_binding(&name(true), eval_or_with);
    let after = s1.inner.bindings.borrow()[0].flags.bits();
    // the access comes from another function iff s2 is a function scope (s1 itself declares the name)
    let must_escape = eval_or_with || f2;
    kani::cover!(must_escape && !eval_or_with);
    kani::cover!(!must_escape);
    assert!(after == before | ACCESSED | if must_escape { ESCAPES } else { 0 });
    let r = s2.get_identifier_reference(name(true));
    assert!(r.local() == !must_escape);
    std::mem::forget((g, s1, s2, l, r));
}
