// Attempted harness (not compiled, not part of any check): no verdict within 2400 s.

/// `trim` on heap strings (`trim_start`/`trim_end` share the tables and `slice_unchecked`; with them included the harness
/// did not finish in 40 min): the same code units in a Latin-1 buffer and in a UTF-16 buffer
/// trim to the same code units, which are the model's (strip ECMAScript whitespace from both ends).
// BOUND: strings of at most 2 code units (all Latin-1 values; both buffer kinds)
// FN: JsString::trim, <JsString as From<JsStr>>::from
#[kani::proof]
#[kani::stub(crate::common::StaticJsStrings::get_string, get_string_none)]
#[kani::unwind(7)]
fn c11x_trim_heap_both_buffers() {
    let l: [u8; 2] = kani::any();
    let n: usize = kani::any();
    kani::assume(n <= 2);
    let w = [u16::from(l[0]), u16::from(l[1])];
    let a = JsString::from(JsStr::latin1(&l[..n]));
    let b = JsString::from(JsStr::utf16(&w[..n]));
    kani::cover!(n == 2 && l[0] == 0xA0 && l[1] == b'x');
    kani::cover!(n == 2 && l[0] == 0x20 && l[1] == 0x0A);
    // model
    let ws = |c: u8| s_trimmable(u16::from(c));
    let (mut lo, mut hi) = (0usize, n);
    while lo < hi && ws(l[lo]) {
        lo += 1;
    }
    while hi > lo && ws(l[hi - 1]) {
        hi -= 1;
    }
    let (ta, tb) = (a.trim(), b.trim());
    assert!(ta.len() == hi - lo && tb.len() == hi - lo);
    let i: usize = kani::any();
    kani::assume(i < hi - lo);
    assert!(ta.as_str().get(i) == Some(w[lo + i]) && tb.as_str().get(i) == Some(w[lo + i]));
    std::mem::forget((a, b, ta, tb));
}

