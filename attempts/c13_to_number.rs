//! C13 kernel (external harness crate, public API of the real boa_string): `JsStr::to_number`
//! (StringToNumber, ECMAScript 7.1.4.1.1) on non-decimal literals `0x..`, `0o..`, `0b..`.
//!
//! Spec: StringNumericLiteral ::: StrWhiteSpace? NonDecimalIntegerLiteral StrWhiteSpace?  -  the digits after the
//! prefix are radix digits only (no sign, no separator); the value is the mathematical integer; anything
//! else is NaN.

// ASSUME-FILE[assume]: selects the prefix letter, bounds the number of digits (BOUND) and keeps units ASCII.
// ASSUME-FILE[unwind]: loops over a string of at most 4 code units.

use boa_string::JsStr;

fn digit(c: u8, base: u32) -> Option<u32> {
    let d = match c {
        b'0'..=b'9' => (c - b'0') as u32,
        b'a'..=b'f' => (c - b'a') as u32 + 10,
        b'A'..=b'F' => (c - b'A') as u32 + 10,
        _ => return None,
    };
    if d < base { Some(d) } else { None }
}

// BOUND: prefix `0x|0X|0o|0O|0b|0B` followed by at most 2 ASCII code units (any ASCII, so signs and junk included)
// FN: JsStr::to_number
#[kani::proof]
#[kani::unwind(12)]
fn c13_string_to_number_nondecimal() {
    let k: u8 = kani::any();
    kani::assume(k < 6);
    let (letter, base) = [(b'x', 16u32), (b'X', 16), (b'o', 8), (b'O', 8), (b'b', 2), (b'B', 2)][k as usize];
    let d: [u8; 2] = kani::any();
    kani::assume(d[0] < 128 && d[1] < 128);
    let n: usize = kani::any();
    kani::assume(n <= 2);
    let units = [b'0', letter, d[0], d[1]];
    let s = JsStr::latin1(&units[..2 + n]);
    kani::cover!(n == 2 && d[0] == b'+' && d[1] == b'1');
    kani::cover!(n == 2 && digit(d[0], base).is_some() && digit(d[1], base).is_some());
    kani::cover!(n == 0);
    let r = s.to_number();
    let want: Option<u32> = if n == 0 {
        None
    } else if n == 1 {
        digit(d[0], base)
    } else {
        match (digit(d[0], base), digit(d[1], base)) {
            (Some(a), Some(b)) => Some(a * base + b),
            _ => None,
        }
    };
    match want {
        Some(v) => assert!(r == v as f64),
        None => assert!(r.is_nan()),
    }
}

#[cfg(verif_replay)]
include!("/verif/.cache/playback/to_number.rs");
