//! C14 kernel: dense element storage of arrays and its transitions
//! (`IndexedProperties::{push_dense, contains_key, remove}` on the packed forms DenseI32 / DenseF64,
//! boa_engine::object::property_map).
//!
//! Pulled in by `#[cfg(kani)] #[path = "/verif/kani/engine/property_map.rs"] mod verif_kani;`
//! in /repo/core/engine/src/object/property_map.rs.
//!
//! View: the array is the sequence of its element *values*.  Spec: which packed form currently stores the
//! elements is unobservable - `push` appends the value (an int32 stored into a double array becomes the double
//! of the same value; a double pushed onto an int32 array converts every earlier element to the double of the
//! same value; -0 and NaN are never squeezed into an int32), `contains_key(k) <=> k < len`, removing the last
//! element pops, removing beyond the end is a no-op.

// ASSUME-FILE[assume]: bounds the number of elements (BOUND) and selects operand classes.
// ASSUME-FILE[unwind]: loops over at most 3 elements (ThinVec growth / collect).
// ASSUME-FILE[drop]: `JsValue` operands wrapped in ManuallyDrop (see root.rs).

use super::*;
use std::mem::ManuallyDrop;

fn dense_i32(n: usize, e: [i32; 2]) -> IndexedProperties {
    let mut v: ThinVec<i32> = ThinVec::new();
    if n >= 1 {
        v.push(e[0]);
    }
    if n >= 2 {
        v.push(e[1]);
    }
    IndexedProperties::DenseI32(v)
}

// BOUND: packed int32 / double storage with at most 2 elements
// FN: IndexedProperties::contains_key, IndexedProperties::remove
#[kani::proof]
#[kani::unwind(5)]
fn c14_dense_contains_and_remove() {
    let n: usize = kani::any();
    kani::assume(n <= 2);
    let e: [i32; 2] = kani::any();
    let as_f64: bool = kani::any();
    let mut p = if as_f64 {
        let mut v: ThinVec<f64> = ThinVec::new();
        if n >= 1 {
            v.push(f64::from(e[0]));
        }
        if n >= 2 {
            v.push(f64::from(e[1]));
        }
        IndexedProperties::DenseF64(v)
    } else {
        dense_i32(n, e)
    };
    let k: u32 = kani::any();
    kani::assume(k < u32::MAX); // array indices are at most 2^32 - 2
    assert!(p.contains_key(k) == ((k as usize) < n));
    // removing the last element, or anything beyond the end (the contiguous fast paths)
    kani::assume(k as usize + 1 >= n);
    kani::cover!(k as usize + 1 == n && n == 2);
    kani::cover!(k as usize >= n);
    let removed = p.remove(k);
    let len_after = match &p {
        IndexedProperties::DenseI32(v) => v.len(),
        IndexedProperties::DenseF64(v) => v.len(),
        _ => panic!("storage form changed by a contiguous remove"),
    };
    if k as usize + 1 == n {
        assert!(removed && len_after == n - 1);
    } else {
        assert!(!removed && len_after == n);
    }
    if len_after >= 1 {
        match &p {
            IndexedProperties::DenseI32(v) => assert!(v[0] == e[0]),
            IndexedProperties::DenseF64(v) => assert!(v[0] == f64::from(e[0])),
            _ => {}
        }
    }
}

// BOUND: packed int32 storage with at most 2 elements, one pushed Number
// FN: IndexedProperties::push_dense
#[kani::proof]
#[kani::unwind(6)]
fn c14_push_number_onto_int32_storage() {
    let n: usize = kani::any();
    kani::assume(n <= 2);
    let e: [i32; 2] = kani::any();
    let mut p = dense_i32(n, e);
    let push_int: bool = kani::any();
    let i: i32 = kani::any();
    let f: f64 = kani::any();
    let value = ManuallyDrop::new(if push_int { JsValue::new(i) } else { JsValue::new(f) });
    let pushed: f64 = if push_int { f64::from(i) } else { f };
    kani::cover!(!push_int && f.to_bits() == 0x8000_0000_0000_0000 && n == 2);
    kani::cover!(!push_int && f == 3.0);
    kani::cover!(!push_int && f.is_nan());
    kani::cover!(push_int && n == 2);
    assert!(p.push_dense(&value));
    match &p {
        IndexedProperties::DenseI32(v) => {
            // only a value that IS an int32 (not -0, not fractional, not NaN) may stay in the int32 form
            assert!(v.len() == n + 1);
            assert!(f64::from(v[n]).to_bits() == pushed.to_bits());
            if n >= 1 {
                assert!(v[0] == e[0]);
            }
            if n >= 2 {
                assert!(v[1] == e[1]);
            }
        }
        IndexedProperties::DenseF64(v) => {
            // transition: every earlier element keeps its value, the new one is stored exactly
            assert!(!push_int);
            assert!(v.len() == n + 1);
            assert!(v[n].to_bits() == pushed.to_bits() || (pushed.is_nan() && v[n].is_nan()));
            if n >= 1 {
                assert!(v[0] == f64::from(e[0]));
            }
            if n >= 2 {
                assert!(v[1] == f64::from(e[1]));
            }
        }
        _ => panic!("a Number pushed onto int32 storage must stay packed"),
    }
    std::mem::forget(p);
}

#[kani::proof]
#[kani::unwind(5)]
fn c14_canary_must_fail() {
    let n: usize = kani::any();
    kani::assume(n <= 2);
    let p = dense_i32(n, kani::any());
    std::mem::forget(p);
    assert!(false, "canary");
}

#[cfg(verif_replay)]
include!("/verif/.cache/playback/property_map.rs");
