// Attempted harness (not compiled, not part of any check).

/// The assumed contract of `to_number` (the stub above) discharged against the REAL `JsValue::to_number` on
/// Number operands: "a Number converts to itself".  Only the callees of its other arms are cut
/// (`to_primitive` for objects, `JsStr::to_number` for strings): they panic, so reaching them is a failed check.
fn to_primitive_unreachable(_this: &JsValue, _c: &mut Context, _p: PreferredType) -> JsResult<JsValue> {
    panic!("to_primitive reached from to_number on a Number operand")
}

// FN: JsValue::to_number
#[kani::proof]
#[kani::stub(crate::value::JsValue::to_primitive, to_primitive_unreachable)]
fn c15_to_number_contract_on_numbers() {
    let (v, x) = any_number();
    let mut ctx = forged_context();
    // ASSUME[unsafe]: forged, never read (see file header)
    let ctx: &mut Context = unsafe { &mut *ctx.as_mut_ptr() };
    kani::cover!(x.is_nan());
    let Ok(r) = v.to_number(ctx) else { panic!("to_number failed on a Number") };
    assert!(if x.is_nan() { r.is_nan() } else { r.to_bits() == x.to_bits() });
}
