// Attempted harnesses (not compiled, not part of any check) - see DESIGN.md section 11.

/// CanonicalizeKeyedCollectionKey (24.5.1): -0 becomes +0, every other value is returned unchanged -
/// and on canonical Number keys `Hash` is consistent with the key equality (SameValueZero): equal keys
/// feed a hasher the same bytes, in both value representations (a kept NaN payload or a -0 would split
/// one key into two buckets: `new Set([NaN, x]).size == 2`).
// FN: canonicalize_keyed_collection_key, <JsValue as Hash>::hash, <JsValue as PartialEq>::eq
// BOTH-FEATURES: jsvalue-enum
#[kani::proof]
fn c12_api_number_keys_hash_consistently() {
    use crate::builtins::canonicalize_keyed_collection_key;
    use std::hash::{Hash, Hasher};
    struct Rec(u64, u32);
    impl Hasher for Rec {
        fn finish(&self) -> u64 {
            self.0
        }
        fn write(&mut self, bytes: &[u8]) {
            for b in bytes {
                self.0 = (self.0 << 8) | u64::from(*b);
                self.1 += 1;
            }
        }
    }
    let (f, g): (f64, f64) = (kani::any(), kani::any());
    let use_int: bool = kani::any();
    let i: i32 = kani::any();
    let a = ManuallyDrop::new(canonicalize_keyed_collection_key(JsValue::new(f)));
    let b = ManuallyDrop::new(if use_int {
        canonicalize_keyed_collection_key(JsValue::new(i))
    } else {
        canonicalize_keyed_collection_key(JsValue::new(g))
    });
    let gb = if use_int { f64::from(i) } else { g };
    kani::cover!(f.is_nan() && g.is_nan() && f.to_bits() != g.to_bits() && !use_int);
    kani::cover!(f.to_bits() == 0x8000_0000_0000_0000 && use_int && i == 0);
    kani::cover!(use_int && f == 7.0 && i == 7);
    // canonicalisation keeps the numeric value (modulo the sign of zero)
    let Some(ca) = a.as_number() else { panic!("canonical key of a number is not a number") };
    assert!(spec::same_value_zero(ca, f) && !(ca == 0.0 && ca.is_sign_negative()));
    // key equality is SameValueZero
    let equal = *a == *b;
    assert!(equal == spec::same_value_zero(f, gb));
    // equal keys hash identically
    if equal {
        let (mut ha, mut hb) = (Rec(0, 0), Rec(0, 0));
        a.hash(&mut ha);
        b.hash(&mut hb);
        assert!(ha.1 == hb.1 && ha.1 <= 8 && ha.0 == hb.0);
    }
}

