// Attempted harness (not compiled, not part of any check): no verdict within 7200 s.

/// The whole u64 accumulation path: `can_not_overflow` admits exactly radix <= 16 and length <= 16, so unwinding the
/// digit loop 17 times with unwinding assertions on covers EVERY input of that path (a proof, not a bound): the
/// value is the exact integer (< 16^16 = 2^64, checked in u128) converted once to double.
// FN: from_js_str_radix (u64 path complete: radix <= 16, length <= 16 is the code's own guard)
#[kani::proof_for_contract(from_js_str_radix)]
#[kani::unwind(18)]
fn c13x_parse_full_u64_path() {
    let b: [u8; 16] = kani::any();
    let n: usize = kani::any();
    kani::assume(n <= 16);
    let radix: u8 = kani::any();
    kani::assume(radix <= 16);
    let src = JsStr::latin1(&b[..n]);
    kani::assume(pre(src, radix));
    kani::cover!(n == 16 && radix == 16 && s_parse(src, radix).is_some());
    let r = from_js_str_radix(src, radix);
    assert!(same(r, s_parse(src, radix)));
}
